//! C14 — failures propagate: no call hangs and every handle learns why it stopped.
//!
//! (a) cut-point sweep over a reference conversation of a real client/listener pair:
//!     one run per (direction, byte offset, cut kind); everything before the cut is
//!     identical to the fault-free run of the same seed (the cut plan is the run's
//!     enumeration case, outside the choice stream).
//! (b) a scripted peer closes / ends / detaches, with or without error, before or
//!     after a chosen frame of the conversation.

use std::cell::RefCell;
use std::rc::Rc;

use fe2o3_amqp::acceptor::{LinkAcceptor, LinkEndpoint, SessionAcceptor};
use fe2o3_amqp::link::receiver::CreditMode;
use fe2o3_amqp::types::definitions::SenderSettleMode;
use fe2o3_amqp::types::messaging::Body;
use fe2o3_amqp::types::primitives::Value;
use fe2o3_amqp::{Receiver, Sender, Session};

use crate::chooser::{choice, pick};
use crate::msgs;
use crate::net::{CutKind, NetCfg, SimStream};
use crate::peer::{self, AttachArgs, Peer, PeerSession};
use crate::sim;
use crate::wire::{self, Item, Models};
use crate::world::{self, EndpointCfg, Slot};

/// Upper bounds on the bytes of each direction of the reference conversation (1935 and 680 bytes
/// in the fault-free run); cases beyond the actual length inject nothing and count as trivial
pub const MAX_A2B: u64 = 2200;
pub const MAX_B2A: u64 = 1200;
pub const CASES: u64 = 3 * (MAX_A2B + 1 + MAX_B2A + 1);

#[derive(Clone, Debug)]
struct OpRecord {
    who: &'static str,
    what: String,
    after_cut: bool,
    ok: bool,
    result: String,
}

type Ops = Rc<RefCell<Vec<OpRecord>>>;

async fn op<T, E: std::fmt::Debug>(ops: &Ops, net: &crate::net::NetHandle, who: &'static str, what: &str, fut: impl std::future::Future<Output = Result<T, E>>) -> Option<Result<T, E>> {
    let after_cut = net.a2b.lock().unwrap().cut_fired;
    let r = sim::op(&format!("{}: {}", who, what), fut).await?;
    ops.borrow_mut().push(OpRecord {
        who,
        what: what.to_string(),
        after_cut,
        ok: r.is_ok(),
        result: match &r {
            Ok(_) => "Ok".to_string(),
            Err(e) => format!("{:?}", e),
        },
    });
    Some(r)
}

fn big(uid: u64) -> msgs::Msg {
    // always more than one 512-byte frame
    let mut m = msgs::gen_message(uid, 100, 1);
    m.body = Body::Value(fe2o3_amqp::types::messaging::AmqpValue(Value::Binary(fe2o3_amqp::types::primitives::Binary::from(vec![
        7u8;
        900
    ]))));
    m
}

#[derive(Clone, Copy, Debug)]
struct Knobs {
    /// credit the listener's receiver grants (None = the acceptor's default)
    rcv_credit: Option<u32>,
    /// the listener sessions' incoming window (None = default)
    l_incoming_window: Option<u32>,
}

async fn listener_session(k: usize, mut s: fe2o3_amqp::acceptor::ListenerSessionHandle, ops: Ops, net: crate::net::NetHandle, knobs: Knobs) {
    let la = LinkAcceptor::new();
    match op(&ops, &net, "listener", &format!("accept link on session {}", k), la.accept(&mut s)).await {
        Some(Ok(LinkEndpoint::Receiver(mut r))) => {
            if let Some(c) = knobs.rcv_credit {
                // little credit: the client's sends wait for it, so a cut can find them blocked there
                r.set_credit_mode(CreditMode::Auto(c));
                if op(&ops, &net, "listener", "set_credit", r.set_credit(c)).await.is_none() {
                    return;
                }
            }
            for i in 0..5 {
                match op(&ops, &net, "listener", &format!("recv {}", i), r.recv::<Body<Value>>()).await {
                    Some(Ok(d)) => {
                        if op(&ops, &net, "listener", &format!("accept {}", i), r.accept(&d)).await.is_none() {
                            return;
                        }
                    }
                    Some(Err(_)) => break,
                    None => return,
                }
            }
            if op(&ops, &net, "listener", "receiver close", r.close()).await.is_none() {
                return;
            }
        }
        Some(Ok(LinkEndpoint::Sender(mut snd))) => {
            for i in 0..2 {
                if op(&ops, &net, "listener", &format!("send {}", i), snd.send(msgs::gen_message(800 + i, 100, 1))).await.is_none() {
                    return;
                }
            }
            if op(&ops, &net, "listener", "sender close", snd.close()).await.is_none() {
                return;
            }
        }
        Some(Err(_)) => {}
        None => return,
    }
    let _ = op(&ops, &net, "listener", &format!("session {} on_end", k), s.on_end()).await;
}

async fn listener_side(mut listener: fe2o3_amqp::acceptor::ListenerConnectionHandle, ops: Ops, net: crate::net::NetHandle, done: Slot<()>, knobs: Knobs) {
    let acc = match knobs.l_incoming_window {
        Some(w) => SessionAcceptor::builder().incoming_window(w).build(),
        None => SessionAcceptor::new(),
    };
    let running = Rc::new(RefCell::new(0usize));
    let all_done: Slot<()> = Slot::new();
    for k in 0..2 {
        match op(&ops, &net, "listener", &format!("accept session {}", k), acc.accept(&mut listener)).await {
            Some(Ok(s)) => {
                *running.borrow_mut() += 1;
                let (ops2, net2, run2, ad2) = (ops.clone(), net.clone(), running.clone(), all_done.clone());
                sim::spawn("listener-session", async move {
                    listener_session(k, s, ops2, net2, knobs).await;
                    *run2.borrow_mut() -= 1;
                    if *run2.borrow() == 0 {
                        ad2.put(());
                    }
                });
            }
            Some(Err(_)) => break,
            None => return,
        }
    }
    if *running.borrow() > 0 && sim::op("listener session tasks", all_done.take()).await.is_none() {
        return;
    }
    let _ = op(&ops, &net, "listener", "connection on_close", listener.on_close()).await;
    done.put(());
}

/// The reference conversation with an optional transport cut
pub async fn run_cut() {
    let case = sim::case();
    let kind = match case % 3 {
        0 => CutKind::Eof,
        1 => CutKind::Reset,
        _ => CutKind::StallThenEof,
    };
    let pos = (case / 3) % (MAX_A2B + 1 + MAX_B2A + 1);
    // 0 = client->listener bytes, 1 = listener->client
    let (dir, offset) = if pos <= MAX_A2B { (0usize, pos) } else { (1usize, pos - MAX_A2B - 1) };
    let mut ccfg = EndpointCfg::default_cfg();
    let mut lcfg = EndpointCfg::default_cfg();
    ccfg.max_frame_size = 512;
    lcfg.max_frame_size = 512;
    // the schedule, the network behaviour and two flow-control knobs vary with the seed; the
    // conversation is fixed
    let knobs = Knobs { rcv_credit: pick(&[None, None, Some(1u32)]), l_incoming_window: pick(&[None, None, Some(2u32)]) };
    let (mut nab, mut nba, nd) = world::draw_net(false);
    nab.stall_den = 0;
    nba.stall_den = 0;
    sim::set_config(format!("variant=cut dir={} offset={} kind={:?} {:?} {}", if dir == 0 { "a2b" } else { "b2a" }, offset, kind, knobs, nd));
    sim::set_panic_is_violation(true);
    let (cs, ls, net) = SimStream::pair("client", "listener", nab, nba);
    {
        let p = if dir == 0 { &net.a2b } else { &net.b2a };
        p.lock().unwrap().cut_at = Some((offset, kind, 3000));
    }
    let mon = wire::install(&net, ["client", "listener"], [Models::none(), Models::none()]);
    let ops: Ops = Rc::new(RefCell::new(Vec::new()));
    let ldone: Slot<()> = Slot::new();
    {
        let (ops2, net2, ld, lcfg2) = (ops.clone(), net.clone(), ldone.clone(), lcfg.clone());
        sim::spawn(
            "listener-main",
            sim::in_group(2, async move {
                let acceptor = world::listener_acceptor(&lcfg2);
                match op(&ops2, &net2, "listener", "accept connection", acceptor.accept(ls)).await {
                    Some(Ok(l)) => listener_side(l, ops2, net2, ld, knobs).await,
                    _ => ld.put(()),
                }
            }),
        );
    }
    // ---- client side of the reference conversation; every step goes on whatever the previous one returned
    let client = op(&ops, &net, "client", "open", sim::in_group(1, world::client_open(&ccfg, cs))).await;
    let mut client = match client {
        Some(Ok(c)) => Some(c),
        Some(Err(_)) => None,
        None => return,
    };
    let cdone: Slot<()> = Slot::new();
    let pending = Rc::new(RefCell::new(0usize));
    let mut s1 = None;
    let mut s2 = None;
    if let Some(c) = client.as_mut() {
        s1 = match op(&ops, &net, "client", "begin 1", sim::in_group(1, Session::begin(c))).await {
            Some(r) => r.ok(),
            None => return,
        };
        s2 = match op(&ops, &net, "client", "begin 2", sim::in_group(1, Session::begin(c))).await {
            Some(r) => r.ok(),
            None => return,
        };
    }
    if let Some(s) = s1.as_mut() {
        let b = Sender::builder().name("A").target("q").sender_settle_mode(SenderSettleMode::Unsettled);
        match op(&ops, &net, "client", "attach sender A", sim::in_group(1, b.attach(s))).await {
            Some(Ok(mut snd)) => {
                *pending.borrow_mut() += 1;
                let (ops2, net2, p2, d2) = (ops.clone(), net.clone(), pending.clone(), cdone.clone());
                sim::spawn("client-sender", async move {
                    let mut futs = Vec::new();
                    for i in 0..3u64 {
                        let m = if i == 1 { big(700 + i) } else { msgs::gen_message(700 + i, 100, 1) };
                        match op(&ops2, &net2, "client", &format!("send_batchable {}", i), snd.send_batchable(m)).await {
                            Some(Ok(f)) => futs.push(f),
                            Some(Err(_)) => {}
                            None => return,
                        }
                    }
                    for (i, f) in futs.into_iter().enumerate() {
                        if op(&ops2, &net2, "client", &format!("outcome {}", i), f).await.is_none() {
                            return;
                        }
                    }
                    if op(&ops2, &net2, "client", "send 3", snd.send(msgs::gen_message(703, 100, 1))).await.is_none() {
                        return;
                    }
                    let _ = op(&ops2, &net2, "client", "sender detach", async { snd.detach().await.map(|_| ()).map_err(|(_, e)| e) }).await;
                    *p2.borrow_mut() -= 1;
                    if *p2.borrow() == 0 {
                        d2.put(());
                    }
                });
            }
            Some(Err(_)) => {}
            None => return,
        }
    }
    if let Some(s) = s2.as_mut() {
        let b = Receiver::builder().name("B").source("q").credit_mode(CreditMode::Auto(10));
        match op(&ops, &net, "client", "attach receiver B", sim::in_group(1, b.attach(s))).await {
            Some(Ok(mut r)) => {
                *pending.borrow_mut() += 1;
                let (ops2, net2, p2, d2) = (ops.clone(), net.clone(), pending.clone(), cdone.clone());
                sim::spawn("client-receiver", async move {
                    for i in 0..2 {
                        match op(&ops2, &net2, "client", &format!("recv {}", i), r.recv::<Body<Value>>()).await {
                            Some(Ok(d)) => {
                                let _ = op(&ops2, &net2, "client", &format!("accept {}", i), r.accept(&d)).await;
                            }
                            Some(Err(_)) => break,
                            None => return,
                        }
                    }
                    let _ = op(&ops2, &net2, "client", "receiver close", r.close()).await;
                    *p2.borrow_mut() -= 1;
                    if *p2.borrow() == 0 {
                        d2.put(());
                    }
                });
            }
            Some(Err(_)) => {}
            None => return,
        }
    }
    if *pending.borrow() > 0 && sim::op("client link tasks", cdone.take()).await.is_none() {
        return;
    }
    if sim::has_violation() {
        return;
    }
    let cut_fired_before_teardown = net.a2b.lock().unwrap().cut_fired;
    // ---- after the fault: every method once more on handles that are still around
    if cut_fired_before_teardown {
        // let both endpoints notice
        world::quiesce_pair(&net).await;
        tokio::time::sleep(std::time::Duration::from_millis(4000)).await;
        sim::until_idle().await;
        if let Some(s) = s1.as_mut() {
            match op(&ops, &net, "client", "late attach", sim::in_group(1, Sender::attach(s, "late", "q"))).await {
                Some(Ok(_)) => {
                    sim::violation("operation-succeeded-after-failure", "attaching a link on a session whose connection is gone returned Ok".into());
                    return;
                }
                Some(Err(e)) => {
                    let es = format!("{:?}", e);
                    if !(es.contains("Stopped") || es.contains("Ended") || es.contains("Closed")) {
                        sim::violation("error-does-not-name-the-stop", format!("late attach failed with {}, which does not say that the session or connection stopped", es));
                        return;
                    }
                    sim::probe("late-attach-error-names-the-stop");
                }
                None => return,
            }
        }
        if let Some(c) = client.as_mut() {
            match op(&ops, &net, "client", "late begin", sim::in_group(1, Session::begin(c))).await {
                Some(Ok(_)) => {
                    sim::violation("operation-succeeded-after-failure", "beginning a session on a connection whose transport is gone returned Ok".into());
                    return;
                }
                Some(Err(_)) => {}
                None => return,
            }
        }
    }
    for (k, s) in [s1, s2].into_iter().enumerate() {
        if let Some(mut s) = s {
            if op(&ops, &net, "client", &format!("end {}", k + 1), s.end()).await.is_none() {
                return;
            }
        }
    }
    let mut close_result = None;
    if let Some(mut c) = client {
        match op(&ops, &net, "client", "close", c.close()).await {
            Some(r) => close_result = Some(format!("{:?}", r)),
            None => return,
        }
    }
    if sim::op("listener side", ldone.take()).await.is_none() {
        return;
    }
    if sim::has_violation() {
        return;
    }
    let cut_fired = net.a2b.lock().unwrap().cut_fired;
    if !cut_fired {
        // the offset lies beyond the conversation: nothing was injected
        sim::probe("cut-beyond-conversation");
    } else {
        sim::mark_nontrivial();
        // the connection handle reports the failure itself unless the close exchange had completed
        mon.borrow_mut().sync();
        let m = mon.borrow();
        let both_closed = m.ends[0].close.is_some() && m.ends[1].close.is_some();
        if let Some(r) = &close_result {
            if r.starts_with("Ok") && !both_closed && cut_fired_before_teardown {
                sim::violation(
                    "connection-handle-reports-ok",
                    format!("the transport was cut ({:?} at offset {} of {}) before the close exchange; connection.close() returned {}", kind, offset, if dir == 0 { "a2b" } else { "b2a" }, r),
                );
                return;
            }
        }
    }
    // all engine tasks of both endpoints have terminated
    world::quiesce_pair(&net).await;
    tokio::time::sleep(std::time::Duration::from_millis(5000)).await;
    sim::until_idle().await;
    let alive = sim::alive_tasks(true, None);
    if !alive.is_empty() {
        sim::violation(
            "engine-task-alive",
            format!("after every handle was closed or dropped and the transport is gone, engine tasks are still alive: {:?}", alive),
        );
    }
}

// ---------------------------------------------------------------------------------------
// (b) peer-initiated close / end / detach at a chosen frame

#[derive(Clone, Copy, Debug, PartialEq)]
enum Kill {
    Close,
    End,
    /// detach with closed=true
    Detach,
    /// detach with closed=false: the link is suspended, its unsettled state stays resumable
    Suspend,
}

#[derive(Clone, Debug)]
struct AppResult {
    what: String,
    /// a method of the link handle (as opposed to a future handed out earlier)
    method: bool,
    /// issued after the peer's stop had certainly been processed by the endpoint
    late: bool,
    result: String,
    ok: bool,
}

type Results = Rc<RefCell<Vec<AppResult>>>;

fn push<T: std::fmt::Debug, E: std::fmt::Debug>(res: &Results, what: &str, method: bool, late: bool, r: &Result<T, E>) {
    res.borrow_mut().push(AppResult {
        what: what.to_string(),
        method,
        late,
        result: format!("{:?}", r),
        ok: r.is_ok(),
    });
}

pub async fn run_peer_initiated() {
    let kill = pick(&[Kill::Close, Kill::End, Kill::Detach, Kill::Suspend]);
    let with_error = choice(2) == 1;
    let receiver_role = choice(2) == 1; // role of the endpoint's link
    let after_frames = choice(10) as usize; // frames from the client after the attach exchange
    let settle_some = choice(2) == 1;
    let ccfg = EndpointCfg::default_cfg();
    let (nab, nba, nd) = world::draw_net(false);
    sim::set_config(format!(
        "variant=peer-initiated kill={:?} with-error={} endpoint-link={} after-frames={} settle-some={} {}",
        kill,
        with_error,
        if receiver_role { "receiver" } else { "sender" },
        after_frames,
        settle_some,
        nd
    ));
    sim::mark_nontrivial();
    sim::set_panic_is_violation(true);
    sim::set_hang_classifier(Box::new(move || {
        // a detach without close suspends the link: the outcome of an unsettled delivery stays
        // pending (it is delivered after resumption) -- recorded finding
        let pending = sim::pending_ops();
        if kill == Kill::Suspend && pending.iter().any(|w| w.starts_with("outcome")) && !pending.iter().any(|w| w.starts_with("late") || w.contains("close") || w.contains("end")) {
            "non-closing-detach-leaves-outcome-pending".to_string()
        } else {
            String::new()
        }
    }));
    let cvp = match peer::client_vs_peer(&ccfg, peer::open("peer", Some(65536), Some(255), None), nab, nba, Models::none()).await {
        Some(x) => x,
        None => return,
    };
    let peer::ClientVsPeer { mut client, mut peer, net, .. } = cvp;
    let mut ps = PeerSession::new(0, 0, 5000, 5000);
    let begin_fut = sim::in_group(1, Session::builder().begin(&mut client));
    let peer_begin = async {
        let b = peer.expect(wire::BEGIN).await?;
        ps.on_remote_begin(b.perf.as_ref().unwrap(), b.channel);
        peer.send(ps.channel, &peer::begin(Some(b.channel), ps.next_outgoing_id, ps.incoming_window, ps.outgoing_window)).await;
        Some(())
    };
    let mut session = match sim::op("begin", world::join2(begin_fut, peer_begin)).await {
        Some((Ok(s), Some(()))) => s,
        _ => return,
    };
    let cond = match kill {
        Kill::Close => "amqp:connection:forced",
        Kill::End => "amqp:session:window-violation",
        Kill::Detach | Kill::Suspend => "amqp:link:detach-forced",
    };
    let results: Results = Rc::new(RefCell::new(Vec::new()));
    let app_done: Slot<()> = Slot::new();
    let killed: Slot<()> = Slot::new();
    // ---- attach and start the application on the link
    if !receiver_role {
        let att = sim::in_group(1, Sender::builder().name("S").target("q").sender_settle_mode(SenderSettleMode::Unsettled).attach(&mut session));
        let peer_att = async {
            peer.expect(wire::ATTACH).await?;
            peer.send(ps.channel, &peer::attach(&AttachArgs::receiver("S", 4))).await;
            let mut f = ps.flow_args();
            f.handle = Some(4);
            f.delivery_count = Some(0);
            f.link_credit = Some(100);
            peer.send(ps.channel, &peer::flow(&f)).await;
            Some(())
        };
        let mut sender = match sim::op("attach", world::join2(att, peer_att)).await {
            Some((Ok(s), Some(()))) => s,
            _ => return,
        };
        let (res2, ad2, k2, net2) = (results.clone(), app_done.clone(), killed.clone(), net.clone());
        sim::spawn("client-app", async move {
            let mut futs = Vec::new();
            for i in 0..6u64 {
                match sim::op(&format!("send_batchable {}", i), sender.send_batchable(msgs::gen_message(900 + i, 200, 1))).await {
                    Some(Ok(f)) => futs.push((i, f)),
                    Some(Err(e)) => push::<(), _>(&res2, &format!("send_batchable {}", i), true, false, &Err(e)),
                    None => return,
                }
                sim::yield_now().await;
            }
            for (i, f) in futs {
                match sim::op(&format!("outcome {}", i), f).await {
                    Some(r) => push(&res2, &format!("outcome {}", i), false, false, &r),
                    None => return,
                }
            }
            if sim::op("the peer's stop", k2.take()).await.is_none() {
                return;
            }
            world::quiesce_pair(&net2).await;
            match sim::op("late send", sender.send(msgs::gen_message(999, 50, 1))).await {
                Some(r) => push(&res2, "late send", true, true, &r),
                None => return,
            }
            match sim::op("sender close", sender.close()).await {
                Some(r) => push(&res2, "close", true, true, &r),
                None => return,
            }
            ad2.put(());
        });
    } else {
        let att = sim::in_group(1, Receiver::builder().name("R").source("q").credit_mode(CreditMode::Auto(10)).attach(&mut session));
        let peer_att = async {
            peer.expect(wire::ATTACH).await?;
            peer.send(ps.channel, &peer::attach(&AttachArgs::sender("R", 4))).await;
            Some(())
        };
        let mut receiver = match sim::op("attach", world::join2(att, peer_att)).await {
            Some((Ok(r), Some(()))) => r,
            _ => return,
        };
        let (res2, ad2, k2, net2) = (results.clone(), app_done.clone(), killed.clone(), net.clone());
        sim::spawn("client-app", async move {
            for i in 0..8 {
                match sim::op(&format!("recv {}", i), receiver.recv::<Body<Value>>()).await {
                    Some(Ok(d)) => match sim::op(&format!("accept {}", i), receiver.accept(&d)).await {
                        Some(r) => {
                            if r.is_err() {
                                push(&res2, &format!("accept {}", i), true, false, &r);
                            }
                        }
                        None => return,
                    },
                    Some(Err(e)) => {
                        push::<(), _>(&res2, &format!("recv {}", i), true, false, &Err(e));
                        break;
                    }
                    None => return,
                }
            }
            if sim::op("the peer's stop", k2.take()).await.is_none() {
                return;
            }
            world::quiesce_pair(&net2).await;
            match sim::op("late recv", receiver.recv::<Body<Value>>()).await {
                Some(r) => push(&res2, "late recv", true, true, &r.map(|_| ())),
                None => return,
            }
            match sim::op("receiver close", receiver.close()).await {
                Some(r) => push(&res2, "close", true, true, &r),
                None => return,
            }
            ad2.put(());
        });
    }
    // ---- the scripted peer
    let peer_done: Slot<()> = Slot::new();
    {
        let (pd2, k2) = (peer_done.clone(), killed.clone());
        let chan = ps.channel;
        sim::spawn("peer-script", async move {
            let mut seen = 0usize;
            let mut is_killed = false;
            let mut credit_seen = false;
            let mut next_id = 0u32;
            let mut link_gone = false;
            let mut session_gone = false;
            let deadline = tokio::time::Instant::now() + sim::OP_DEADLINE;
            loop {
                if sim::has_violation() || tokio::time::Instant::now() >= deadline {
                    break;
                }
                let item = peer.recv_within(100).await;
                let idle = item.is_none();
                if let Some(Item::Frame(f)) = &item {
                    seen += 1;
                    match f.code {
                        wire::TRANSFER if !is_killed && settle_some => {
                            if let Some(id) = f.perf.as_ref().and_then(|p| p.field(1).as_u32()) {
                                if id % 2 == 0 {
                                    peer.send(chan, &peer::disposition(true, id, None, true, Some(peer::accepted()))).await;
                                }
                            }
                        }
                        wire::FLOW => credit_seen = true,
                        wire::ATTACH => {
                            // closing a suspended link re-attaches it first
                            let a = if receiver_role { AttachArgs::sender("R", 4) } else { AttachArgs::receiver("S", 4) };
                            peer.send(f.channel, &peer::attach(&a)).await;
                            link_gone = false;
                            sim::probe("re-attach-after-suspension");
                        }
                        wire::DETACH => {
                            if !link_gone {
                                // the endpoint detaches first: answer in kind
                                let closed = f.perf.as_ref().unwrap().field(1).as_bool().unwrap_or(false);
                                peer.send(f.channel, &peer::detach(4, closed, None)).await;
                            }
                            link_gone = true;
                        }
                        wire::END => {
                            if !session_gone {
                                peer.send(f.channel, &peer::end(None)).await;
                            }
                            session_gone = true;
                        }
                        wire::CLOSE => {
                            if !(is_killed && kill == Kill::Close) {
                                peer.send(0, &peer::close(None)).await;
                            }
                            peer.shutdown().await;
                            break;
                        }
                        _ => {}
                    }
                }
                if peer.eof || peer.read_error.is_some() {
                    break;
                }
                if receiver_role && credit_seen && !is_killed && !link_gone && next_id < 5 {
                    // one message per round towards the endpoint's receiver
                    let m = msgs::encode(&msgs::gen_message(600 + next_id as u64, 60, 1));
                    let t = peer::TransferArgs {
                        handle: 4,
                        delivery_id: Some(next_id),
                        delivery_tag: Some(next_id.to_be_bytes().to_vec()),
                        message_format: Some(0),
                        settled: Some(false),
                        ..Default::default()
                    };
                    peer.send_with_payload(chan, &peer::transfer(&t), &m).await;
                    next_id += 1;
                }
                if !is_killed && (seen >= after_frames || idle) && !(link_gone || session_gone) {
                    let err = if with_error { Some(peer::error(cond, Some("killed-by-peer"))) } else { None };
                    match kill {
                        Kill::Close => {
                            peer.send(0, &peer::close(err)).await;
                            sim::fault("peer-close");
                        }
                        Kill::End => {
                            peer.send(chan, &peer::end(err)).await;
                            session_gone = true;
                            sim::fault("peer-end");
                        }
                        Kill::Detach => {
                            peer.send(chan, &peer::detach(4, true, err)).await;
                            link_gone = true;
                            sim::fault("peer-detach-closed");
                        }
                        Kill::Suspend => {
                            peer.send(chan, &peer::detach(4, false, err)).await;
                            link_gone = true;
                            sim::fault("peer-detach");
                        }
                    }
                    is_killed = true;
                    k2.put(());
                }
            }
            if !is_killed {
                k2.put(());
            }
            pd2.put(());
        });
    }
    if sim::op("client application", app_done.take()).await.is_none() {
        return;
    }
    // the teardown calls: awaited, or the non-blocking variants polled until they yield the result
    let polled = choice(3) == 0;
    sim::append_config(&format!(" teardown-polled={}", polled));
    let r1 = if polled {
        use fe2o3_amqp::session::TryEndError;
        let poll = async {
            loop {
                match session.try_end() {
                    Ok(r) => return format!("{:?}", r),
                    Err(TryEndError::RemoteEndNotReceived) => sim::sleep_ms(10).await,
                    Err(TryEndError::AlreadyEnded) => return "Err(AlreadyEnded)".to_string(),
                }
            }
        };
        match sim::op("session try_end polled", poll).await {
            Some(r) => r,
            None => return,
        }
    } else {
        match sim::op("session end", session.end()).await {
            Some(r) => format!("{:?}", r),
            None => return,
        }
    };
    let r2 = if polled {
        use fe2o3_amqp::connection::TryCloseError;
        let poll = async {
            loop {
                match client.try_close() {
                    Ok(r) => return format!("{:?}", r),
                    Err(TryCloseError::RemoteCloseNotReceived) => sim::sleep_ms(10).await,
                    Err(TryCloseError::AlreadyClosed) => return "Err(AlreadyClosed)".to_string(),
                }
            }
        };
        match sim::op("connection try_close polled", poll).await {
            Some(r) => r,
            None => return,
        }
    } else {
        match sim::op("connection close", client.close()).await {
            Some(r) => format!("{:?}", r),
            None => return,
        }
    };
    // the handles are spent: whatever teardown call follows on them returns at once (an error is
    // fine, a hang or a panic is not)
    for _ in 0..(1 + choice(3)) {
        let done = match choice(6) {
            0 => sim::op("connection close on a spent handle", client.close()).await.map(|_| ()),
            1 => sim::op("connection on_close on a spent handle", client.on_close()).await.map(|_| ()),
            2 => {
                let _ = client.try_close();
                Some(())
            }
            3 => sim::op("session end on a spent handle", session.end()).await.map(|_| ()),
            4 => sim::op("session on_end on a spent handle", session.on_end()).await.map(|_| ()),
            _ => {
                let _ = session.try_end();
                Some(())
            }
        };
        if done.is_none() {
            return;
        }
        sim::probe("teardown-call-on-a-spent-handle-returned");
    }
    if sim::op("peer script", peer_done.take()).await.is_none() {
        return;
    }
    judge_peer_initiated(kill, with_error, cond, &results.borrow(), &r1, &r2);
    if sim::has_violation() {
        return;
    }
    world::quiesce_pair(&net).await;
    tokio::time::sleep(std::time::Duration::from_millis(2000)).await;
    sim::until_idle().await;
    let alive = sim::alive_tasks(true, None);
    if !alive.is_empty() {
        sim::violation("engine-task-alive", format!("after every handle was closed and the connection is gone, engine tasks are still alive: {:?}", alive));
    }
}

fn judge_peer_initiated(kill: Kill, with_error: bool, cond: &str, results: &[AppResult], end_r: &str, close_r: &str) {
    if sim::has_violation() {
        return;
    }
    let carries = |r: &str| r.contains("killed-by-peer");
    // data-path operations issued after the stop fail
    for r in results.iter().filter(|r| r.late && r.what.starts_with("late")) {
        if r.ok {
            sim::violation("operation-succeeded-after-failure", format!("after the peer's {:?} had been processed, `{}` returned {}", kill, r.what, r.result));
            return;
        }
        sim::probe("late-operation-failed");
    }
    if with_error {
        let method_errs: Vec<&AppResult> = results.iter().filter(|r| r.method && !r.ok).collect();
        match kill {
            Kill::Detach | Kill::Suspend => {
                // the handle learns the peer's error from the first method that notices the detach
                if let Some(first) = method_errs.first() {
                    if !carries(&first.result) {
                        sim::violation(
                            "peer-error-not-carried",
                            format!("the peer's detach carried {}; the first link method to fail, `{}`, reports {}", cond, first.what, first.result),
                        );
                        return;
                    }
                    sim::probe("peer-error-carried-by-link-error");
                }
            }
            Kill::End | Kill::Close => {
                // the stop reason is recorded once and for all: every failing link operation carries it
                for r in results.iter().filter(|r| !r.ok) {
                    if !carries(&r.result) {
                        sim::violation(
                            "peer-error-not-carried",
                            format!("the peer's {:?} carried {}; `{}` reports {}", kill, cond, r.what, r.result),
                        );
                        return;
                    }
                    sim::probe("peer-error-carried-by-link-error");
                }
                if kill == Kill::End && !carries(end_r) {
                    sim::violation("peer-error-not-carried", format!("the peer ended the session with {}; session.end() returned {}", cond, end_r));
                    return;
                }
                if kill == Kill::Close && !carries(close_r) {
                    sim::violation("peer-error-not-carried", format!("the peer closed the connection with {}; connection.close() returned {}", cond, close_r));
                    return;
                }
            }
        }
    }
    // the error names the level that stopped
    for r in results.iter().filter(|r| !r.ok) {
        let level_ok = match kill {
            Kill::Close => r.result.contains("Connection") || r.result.contains("RemoteClosed"),
            Kill::End => r.result.contains("Session") || r.result.contains("Ended"),
            Kill::Detach | Kill::Suspend => true,
        };
        if !level_ok {
            sim::violation("error-does-not-name-the-stop", format!("after the peer's {:?}, `{}` reports {}", kill, r.what, r.result));
            return;
        }
    }
    let _ = NetCfg::plain();
}

// ---------------------------------------------------------------------------------------
// (c) the peer answers a teardown call with an error

/// The application tears down link, session and connection in turn; the scripted peer answers
/// one of the three (seeded) with an error. The call that was answered with the error must
/// report it; the others return Ok.
pub async fn run_answered_with_error() {
    let level = choice(3); // 0 link, 1 session, 2 connection
    let crossing = choice(2) == 1; // the peer's frame is written before it has seen ours
    // the application bounds its end() / close() with a time-out, the peer takes longer than that to
    // answer, and the application asks again: the second call reports what the first would have
    let abandoned = !crossing && level > 0 && choice(3) == 0;
    let ccfg = EndpointCfg::default_cfg();
    let (nab, nba, nd) = world::draw_net(false);
    sim::set_config(format!("variant=answered-with-error level={} crossing={} first-call-abandoned={} {}", ["link", "session", "connection"][level as usize], crossing, abandoned, nd));
    sim::mark_nontrivial();
    sim::set_panic_is_violation(true);
    let cvp = match peer::client_vs_peer(&ccfg, peer::open("peer", Some(65536), Some(255), None), nab, nba, Models::none()).await {
        Some(x) => x,
        None => return,
    };
    let peer::ClientVsPeer { mut client, mut peer, net, .. } = cvp;
    let mut ps = PeerSession::new(0, 0, 5000, 5000);
    let begin_fut = sim::in_group(1, Session::builder().begin(&mut client));
    let peer_begin = async {
        let b = peer.expect(wire::BEGIN).await?;
        ps.on_remote_begin(b.perf.as_ref().unwrap(), b.channel);
        peer.send(ps.channel, &peer::begin(Some(b.channel), ps.next_outgoing_id, ps.incoming_window, ps.outgoing_window)).await;
        Some(())
    };
    let mut session = match sim::op("begin", world::join2(begin_fut, peer_begin)).await {
        Some((Ok(s), Some(()))) => s,
        _ => return,
    };
    let att = sim::in_group(1, Sender::builder().name("S").target("q").sender_settle_mode(SenderSettleMode::Unsettled).attach(&mut session));
    let peer_att = async {
        peer.expect(wire::ATTACH).await?;
        peer.send(ps.channel, &peer::attach(&AttachArgs::receiver("S", 4))).await;
        let mut f = ps.flow_args();
        f.handle = Some(4);
        f.delivery_count = Some(0);
        f.link_credit = Some(100);
        peer.send(ps.channel, &peer::flow(&f)).await;
        Some(())
    };
    let mut sender = match sim::op("attach", world::join2(att, peer_att)).await {
        Some((Ok(s), Some(()))) => s,
        _ => return,
    };
    let chan = ps.channel;
    let err = || Some(peer::error("amqp:internal-error", Some("answered-with-error")));
    // the peer: settles transfers, answers detach / end / close, one of them with an error
    let peer_done: Slot<()> = Slot::new();
    {
        let pd = peer_done.clone();
        sim::spawn("peer-script", async move {
            let deadline = tokio::time::Instant::now() + sim::OP_DEADLINE;
            // with `crossing`, the peer's erroneous frame of the chosen level goes out as soon as the
            // level below has been torn down, without waiting for the endpoint's frame
            let mut sent_early = false;
            loop {
                if sim::has_violation() || tokio::time::Instant::now() >= deadline {
                    break;
                }
                match peer.recv_within(100).await {
                    Some(Item::Frame(f)) => match f.code {
                        wire::TRANSFER => {
                            if let Some(id) = f.perf.as_ref().and_then(|p| p.field(1).as_u32()) {
                                peer.send(chan, &peer::disposition(true, id, None, true, Some(peer::accepted()))).await;
                            }
                        }
                        wire::DETACH => {
                            peer.send(f.channel, &peer::detach(4, true, if level == 0 { err() } else { None })).await;
                            if crossing && level == 1 {
                                peer.send(chan, &peer::end(err())).await;
                                sent_early = true;
                            }
                        }
                        wire::END => {
                            if abandoned && level == 1 {
                                tokio::time::sleep(std::time::Duration::from_millis(600)).await;
                            }
                            if !(sent_early && level == 1) {
                                peer.send(f.channel, &peer::end(if level == 1 { err() } else { None })).await;
                            }
                            if crossing && level == 2 {
                                peer.send(0, &peer::close(err())).await;
                                sent_early = true;
                            }
                        }
                        wire::CLOSE => {
                            if abandoned && level == 2 {
                                tokio::time::sleep(std::time::Duration::from_millis(600)).await;
                            }
                            if !(sent_early && level == 2) {
                                peer.send(0, &peer::close(if level == 2 { err() } else { None })).await;
                            }
                            peer.shutdown().await;
                            break;
                        }
                        _ => {}
                    },
                    Some(_) => {}
                    None => {
                        if peer.eof || peer.read_error.is_some() {
                            break;
                        }
                    }
                }
            }
            pd.put(());
        });
    }
    for i in 0..2u64 {
        match sim::op(&format!("send {}", i), sender.send(msgs::gen_message(950 + i, 100, 1))).await {
            Some(Ok(_)) => {}
            Some(Err(e)) => {
                sim::violation("send-error", format!("send {} failed: {:?}", i, e));
                return;
            }
            None => return,
        }
    }
    let r_link = match sim::op("sender close", sender.close()).await {
        Some(r) => format!("{:?}", r),
        None => return,
    };
    let mut first_sess = None;
    if abandoned && level == 1 {
        match tokio::time::timeout(std::time::Duration::from_millis(150), session.end()).await {
            Ok(r) => first_sess = Some(format!("{:?}", r)),
            Err(_) => sim::fault("pending-teardown-call-abandoned"),
        }
    }
    let r_sess = match first_sess {
        Some(r) => r,
        None => match sim::op("session end", session.end()).await {
            Some(r) => format!("{:?}", r),
            None => return,
        },
    };
    let mut first_conn = None;
    if abandoned && level == 2 {
        match tokio::time::timeout(std::time::Duration::from_millis(150), client.close()).await {
            Ok(r) => first_conn = Some(format!("{:?}", r)),
            Err(_) => sim::fault("pending-teardown-call-abandoned"),
        }
    }
    let r_conn = match first_conn {
        Some(r) => r,
        None => match sim::op("connection close", client.close()).await {
            Some(r) => format!("{:?}", r),
            None => return,
        },
    };
    if sim::op("peer script", peer_done.take()).await.is_none() {
        return;
    }
    let results = [("sender.close()", &r_link), ("session.end()", &r_sess), ("connection.close()", &r_conn)];
    for (i, (what, r)) in results.iter().enumerate() {
        if i as u32 == level {
            if !r.contains("answered-with-error") {
                sim::violation(
                    "peer-error-not-carried",
                    format!("the peer answered {} with amqp:internal-error 'answered-with-error'; the call returned {}", what, r),
                );
                return;
            }
            sim::probe("answer-error-reported");
        } else if (i as u32) < level && !r.starts_with("Ok") {
            // calls above the failing level may legitimately see the early (crossing) frame
            sim::violation("teardown-result", format!("{} was answered without error and returned {}", what, r));
            return;
        }
    }
    let _ = net;
}

// ---------------------------------------------------------------------------------------
// The listener side: an application that is waiting in SessionAcceptor::accept, in
// LinkAcceptor::accept or in recv when the peer closes the connection or ends the session. The
// waiting call completes, names what stopped, and carries the peer's error when there is one; the
// connection handle reports the peer's close.

pub async fn run_peer_initiated_listener() {
    let pending = choice(3); // 0 session accept, 1 link accept, 2 recv
    let kill_close = pending == 0 || choice(2) == 0;
    let with_error = choice(3) != 0;
    let lcfg = EndpointCfg::default_cfg();
    let (nab, nba, nd) = world::draw_net(false);
    sim::set_config(format!(
        "variant=peer-initiated-vs-listener pending={} kill={} with-error={} {}",
        ["session-accept", "link-accept", "recv"][pending as usize],
        if kill_close { "close" } else { "end" },
        with_error,
        nd
    ));
    sim::mark_nontrivial();
    sim::set_panic_is_violation(true);
    let pvl = match peer::peer_vs_listener(&lcfg, peer::open("peer", Some(65536), Some(255), None), nab, nba, Models::none()).await {
        Some(x) => x,
        None => return,
    };
    let peer::ListenerVsPeer { listener, mut peer, net, .. } = pvl;
    let waiting: Slot<()> = Slot::new();
    let result: Slot<String> = Slot::new();
    let closed: Slot<String> = Slot::new();
    {
        let (waiting, result, closed) = (waiting.clone(), result.clone(), closed.clone());
        sim::spawn(
            "listener-app",
            sim::in_group(2, async move {
                let mut listener = listener;
                let acc = SessionAcceptor::new();
                if pending == 0 {
                    waiting.put(());
                    let r = sim::op("listener: session accept (pending when the peer closes)", acc.accept(&mut listener)).await;
                    match r {
                        Some(r) => result.put(format!("{:?}", r.map(|_| ()))),
                        None => return,
                    }
                } else {
                    let mut sess = match sim::op("listener: session accept", acc.accept(&mut listener)).await {
                        Some(Ok(s)) => s,
                        Some(Err(e)) => {
                            result.put(format!("session accept failed early: {:?}", e));
                            return;
                        }
                        None => return,
                    };
                    let la = LinkAcceptor::new();
                    if pending == 1 {
                        waiting.put(());
                        let r = sim::op("listener: link accept (pending when the peer stops)", la.accept(&mut sess)).await;
                        match r {
                            Some(r) => result.put(format!("{:?}", r.map(|_| ()))),
                            None => return,
                        }
                    } else {
                        let mut rcv = match sim::op("listener: link accept", la.accept(&mut sess)).await {
                            Some(Ok(LinkEndpoint::Receiver(r))) => r,
                            Some(other) => {
                                result.put(format!("link accept gave {:?}", other.map(|_| ())));
                                return;
                            }
                            None => return,
                        };
                        waiting.put(());
                        let r = sim::op("listener: recv (pending when the peer stops)", rcv.recv::<Body<Value>>()).await;
                        match r {
                            Some(r) => result.put(format!("{:?}", r.map(|_| ()))),
                            None => return,
                        }
                        let _ = sim::op("listener: receiver close", rcv.close()).await;
                    }
                    let _ = sim::op("listener: session on_end", sess.on_end()).await;
                }
                if let Some(r) = sim::op("listener: connection on_close", listener.on_close()).await {
                    closed.put(format!("{:?}", r));
                }
            }),
        );
    }
    let ps = PeerSession::new(2, 0, 5000, 5000);
    if pending > 0 {
        peer.send(ps.channel, &peer::begin(None, 0, 5000, 5000)).await;
        if peer.expect(wire::BEGIN).await.is_none() {
            sim::violation("begin-failed", "the listener did not answer begin".into());
            return;
        }
    }
    if pending == 2 {
        peer.send(ps.channel, &peer::attach(&AttachArgs::sender("L", 1))).await;
        if peer.expect(wire::ATTACH).await.is_none() {
            sim::violation("attach-failed", "the listener did not answer attach".into());
            return;
        }
    }
    if sim::op("the application is waiting", waiting.take()).await.is_none() {
        return;
    }
    if !peer::settle(&mut peer, &net, |_| {}).await {
        return;
    }
    // the peer stops
    let (cond, desc) = if kill_close { ("amqp:connection:forced", "closed-by-the-peer") } else { ("amqp:session:window-violation", "ended-by-the-peer") };
    let err = if with_error { Some(peer::error(cond, Some(desc))) } else { None };
    if kill_close {
        peer.send(0, &peer::close(err)).await;
        sim::fault("peer-closes-under-a-pending-listener-call");
    } else {
        peer.send(ps.channel, &peer::end(err)).await;
        sim::fault("peer-ends-under-a-pending-listener-call");
    }
    let serve = async {
        // answer what the listener still sends; end the stream after its close
        let deadline = tokio::time::Instant::now() + std::time::Duration::from_secs(120);
        let mut sent_close = kill_close;
        while tokio::time::Instant::now() < deadline && !peer.eof {
            for f in peer.drain_for(50).await {
                if f.code == wire::CLOSE {
                    if !sent_close {
                        peer.send(0, &peer::close(None)).await;
                        sent_close = true;
                    }
                    peer.shutdown().await;
                    return;
                }
            }
            if !kill_close && result_seen(&result) && !sent_close {
                // the session is over: the peer closes the connection now
                peer.send(0, &peer::close(None)).await;
                sent_close = true;
            }
        }
    };
    fn result_seen(r: &Slot<String>) -> bool {
        // (peek without taking)
        match r.try_take() {
            Some(v) => {
                r.put(v);
                true
            }
            None => false,
        }
    }
    let wait = async {
        let r = sim::op("the waiting call completes", result.take()).await?;
        result.put(r.clone());
        let c = sim::op("listener connection on_close", closed.take()).await?;
        Some((r, c))
    };
    let (rc, _) = world::join2(wait, serve).await;
    let (r, c) = match rc {
        Some(x) => x,
        None => return,
    };
    let what = ["SessionAcceptor::accept", "LinkAcceptor::accept", "recv"][pending as usize];
    if r.starts_with("Ok") {
        sim::violation("operation-succeeded-after-peer-stop", format!("the peer {} while {} was pending; it returned {}", if kill_close { "closed the connection" } else { "ended the session" }, what, r));
        return;
    }
    if with_error && !(r.contains(desc) || r.contains("Forced") && kill_close || r.contains("WindowViolation") && !kill_close) {
        sim::violation(
            "peer-error-not-carried",
            format!("the peer {} with {} '{}' while {} was pending on the listener side; the call returned {}", if kill_close { "closed the connection" } else { "ended the session" }, cond, desc, what, r),
        );
        return;
    }
    if kill_close && with_error && !(c.contains(desc) || c.contains("Forced")) {
        sim::violation("peer-error-not-carried", format!("the peer closed the connection with {} '{}'; the listener's on_close returned {}", cond, desc, c));
        return;
    }
    sim::probe("pending-listener-call-failed-with-the-peers-reason");
}

// ---------------------------------------------------------------------------------------
// The session or the connection stops while a sender is being resumed: the link was detached with an
// unsettled delivery outstanding, resume() has written its attach and waits for the peer's, and the
// peer ends the session or closes the connection instead. resume() fails and says why; the outcome
// of the outstanding delivery - awaited in another task, the detached sender kept alive inside the
// error value - resolves with an error as well.

pub async fn run_stop_during_resume() {
    let kill_close = choice(2) == 0;
    let with_error = choice(2) == 1;
    let n_out = 1 + choice(3) as usize;
    let ccfg = EndpointCfg::default_cfg();
    let (nab, nba, nd) = world::draw_net(false);
    sim::set_config(format!("variant=stop-during-resume kill={} with-error={} outstanding={} {}", if kill_close { "close" } else { "end" }, with_error, n_out, nd));
    sim::mark_nontrivial();
    sim::set_panic_is_violation(true);
    let cvp = match peer::client_vs_peer(&ccfg, peer::open("peer", Some(65536), Some(255), None), nab, nba, Models::none()).await {
        Some(x) => x,
        None => return,
    };
    let peer::ClientVsPeer { mut client, mut peer, net, .. } = cvp;
    let mut ps = PeerSession::new(0, 0, 5000, 5000);
    let begin_fut = sim::in_group(1, Session::builder().begin(&mut client));
    let peer_begin = async {
        let b = peer.expect(wire::BEGIN).await?;
        ps.on_remote_begin(b.perf.as_ref().unwrap(), b.channel);
        peer.send(ps.channel, &peer::begin(Some(b.channel), ps.next_outgoing_id, ps.incoming_window, ps.outgoing_window)).await;
        Some(())
    };
    let mut session = match sim::op("begin", world::join2(begin_fut, peer_begin)).await {
        Some((Ok(s), Some(()))) => s,
        _ => return,
    };
    let att = sim::in_group(1, Sender::builder().name("S").target("q").sender_settle_mode(SenderSettleMode::Unsettled).attach(&mut session));
    let peer_att = async {
        peer.expect(wire::ATTACH).await?;
        peer.send(ps.channel, &peer::attach(&AttachArgs::receiver("S", 4))).await;
        let mut f = ps.flow_args();
        f.handle = Some(4);
        f.delivery_count = Some(0);
        f.link_credit = Some(50);
        peer.send(ps.channel, &peer::flow(&f)).await;
        Some(())
    };
    let mut sender = match sim::op("attach", world::join2(att, peer_att)).await {
        Some((Ok(s), Some(()))) => s,
        _ => return,
    };
    // unsettled deliveries whose outcomes are awaited elsewhere
    let outcomes: Rc<RefCell<Vec<String>>> = Rc::new(RefCell::new(Vec::new()));
    for i in 0..n_out {
        match sim::op("send_batchable", sender.send_batchable(msgs::gen_message(700 + i as u64, 80, 1))).await {
            Some(Ok(f)) => {
                let outcomes = outcomes.clone();
                sim::spawn("app-outcome", async move {
                    if let Some(r) = sim::op(&format!("outcome of delivery {} sent before the detach", i), f).await {
                        outcomes.borrow_mut().push(format!("{:?}", r));
                    }
                });
            }
            Some(Err(e)) => {
                sim::violation("send-failed", format!("{:?}", e));
                return;
            }
            None => return,
        }
    }
    // the transfers arrive; nothing is settled
    for _ in 0..n_out {
        if peer.expect(wire::TRANSFER).await.is_none() {
            sim::violation("deliveries-missing", "a batchable send put no transfer on the wire".into());
            return;
        }
        ps.on_transfer_received();
    }
    // detach, answered
    let det = sender.detach();
    let peer_det = async {
        peer.expect(wire::DETACH).await?;
        peer.send(ps.channel, &peer::detach(4, false, None)).await;
        Some(())
    };
    let detached = match sim::op("detach", world::join2(det, peer_det)).await {
        Some((Ok(d), Some(()))) => d,
        Some((r, _)) => {
            sim::violation("detach-failed", format!("{:?}", r.map(|_| ()).map_err(|(_, e)| e)));
            return;
        }
        None => return,
    };
    if !peer::settle(&mut peer, &net, |_| {}).await {
        return;
    }
    // resume: the attach is written, the peer stops instead of answering
    let (cond, desc) = if kill_close { ("amqp:connection:forced", "closed-during-resume") } else { ("amqp:session:unattached-handle", "ended-during-resume") };
    let resume = detached.resume();
    let stop = async {
        peer.expect(wire::ATTACH).await?;
        let err = if with_error { Some(peer::error(cond, Some(desc))) } else { None };
        if kill_close {
            peer.send(0, &peer::close(err)).await;
        } else {
            peer.send(ps.channel, &peer::end(err)).await;
        }
        sim::fault("peer-stops-while-a-sender-is-resuming");
        Some(())
    };
    let (resumed, _) = match sim::op("resume (the peer stops instead of answering)", world::join2(resume, stop)).await {
        Some(x) => x,
        None => return,
    };
    // the error value holds the detached sender: the application keeps it
    let kept = match resumed {
        Ok(_) => {
            sim::violation("operation-succeeded-after-peer-stop", "the peer stopped instead of answering the resuming attach; resume() returned a sender".into());
            return;
        }
        Err(e) => {
            let k = format!("{:?}", e.kind);
            if with_error && !k.contains(desc) {
                sim::violation("peer-error-not-carried", format!("the peer stopped with {} '{}' while resume() was pending; it returned {}", cond, desc, k));
                return;
            }
            e
        }
    };
    // the outcomes resolve (the pending-operation table would show the ones that do not)
    let td = async {
        let deadline = tokio::time::Instant::now() + sim::OP_DEADLINE + std::time::Duration::from_secs(30);
        while outcomes.borrow().len() < n_out && tokio::time::Instant::now() < deadline && !sim::has_violation() {
            sim::sleep_ms(50).await;
        }
        let _ = tokio::time::timeout(std::time::Duration::from_secs(20), session.end()).await;
        let _ = tokio::time::timeout(std::time::Duration::from_secs(20), client.close()).await;
    };
    let _ = world::join2(td, peer::serve_teardown(&mut peer, 30_000)).await;
    if sim::has_violation() {
        return;
    }
    for o in outcomes.borrow().iter() {
        if o.starts_with("Ok") {
            sim::violation("operation-succeeded-after-peer-stop", format!("nothing was settled; an outcome resolved as {}", o));
            return;
        }
    }
    if outcomes.borrow().len() == n_out {
        sim::probe("outcomes-of-a-resuming-sender-failed-with-the-session");
    }
    drop(kept);
}
