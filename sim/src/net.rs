//! The network seam: an in-memory, simulator-controlled duplex byte stream.
//!
//! `SimStream::pair()` gives two `AsyncRead + AsyncWrite` ends joined by two
//! one-directional pipes. A pump task per direction (an ordinary simulator task,
//! so delivery competes with the engines for the scheduler) moves bytes from
//! "in flight" to "delivered" in seeded chunks, with seeded virtual latency,
//! stalls and cuts. TCP's contract (ordered, loss-free) is kept unless a
//! scenario installs a corruption plan on purpose.

use std::collections::VecDeque;
use std::io;
use std::pin::Pin;
use std::sync::{Arc, Mutex};
use std::task::{Context, Poll, Waker};

use tokio::io::{AsyncRead, AsyncWrite, ReadBuf};

use crate::chooser::{chance, choice};
use crate::sim;

#[derive(Clone, Copy, Debug, PartialEq)]
pub enum CutKind {
    /// reader sees EOF, writers write into the void
    Eof,
    /// reader sees ConnectionReset, writers get BrokenPipe
    Reset,
    /// both pumps freeze for `stall_ms`, then EOF
    StallThenEof,
}

#[derive(Clone, Debug)]
pub struct NetCfg {
    /// how the pump chooses chunk sizes: 0 = everything buffered, 1 = 1 byte,
    /// 2 = 1..8, 3 = up to mtu, 4 = mixed per chunk
    pub chunk_mode: u32,
    pub mtu: usize,
    /// capacity of a direction (bytes written but not yet delivered) before the
    /// writer gets Pending
    pub capacity: usize,
    pub short_writes: bool,
    pub short_reads: bool,
    /// max virtual latency per delivery in microseconds (0 = none)
    pub latency_us: u64,
    /// probability 1/den per delivery of a stall of up to stall_ms (0 = never)
    pub stall_den: u32,
    pub stall_ms: u64,
}

impl NetCfg {
    pub fn plain() -> Self {
        NetCfg {
            chunk_mode: 0,
            mtu: 1500,
            capacity: 1 << 20,
            short_writes: false,
            short_reads: false,
            latency_us: 0,
            stall_den: 0,
            stall_ms: 0,
        }
    }
    /// Draw a network configuration from the choice stream (value 0 = plain)
    pub fn draw() -> Self {
        let chunk_mode = choice(5);
        let mtu = *[1500usize, 64, 9, 512, 4096].get(choice(5) as usize).unwrap();
        let capacity = *[1usize << 20, 65536, 4096, 600, 64, 8, 1]
            .get(choice(7) as usize)
            .unwrap();
        let short_writes = choice(3) == 1;
        let short_reads = choice(3) == 1;
        let latency_us = *[0u64, 0, 50, 1000, 20_000].get(choice(5) as usize).unwrap();
        let (stall_den, stall_ms) = match choice(4) {
            1 => (40, 200),
            2 => (200, 5000),
            _ => (0, 0),
        };
        NetCfg {
            chunk_mode,
            mtu,
            capacity,
            short_writes,
            short_reads,
            latency_us,
            stall_den,
            stall_ms,
        }
    }
    pub fn describe(&self) -> String {
        format!(
            "net[chunk={} mtu={} cap={} sw={} sr={} lat={}us stall=1/{}x{}ms]",
            self.chunk_mode,
            self.mtu,
            self.capacity,
            self.short_writes as u8,
            self.short_reads as u8,
            self.latency_us,
            self.stall_den,
            self.stall_ms
        )
    }
}

#[derive(Clone, Debug)]
pub struct Chunk {
    pub vus: u64,
    /// global write sequence number (orders writes across both directions)
    pub seq: u64,
    pub start: usize,
    pub len: usize,
}

thread_local! {
    static WRITE_SEQ: std::cell::Cell<u64> = const { std::cell::Cell::new(0) };
}

pub fn next_write_seq() -> u64 {
    WRITE_SEQ.with(|c| {
        let v = c.get() + 1;
        c.set(v);
        v
    })
}

pub fn reset_write_seq() {
    WRITE_SEQ.with(|c| c.set(0))
}

pub struct Pipe {
    pub name: &'static str,
    inflight: VecDeque<u8>,
    delivered: VecDeque<u8>,
    cfg: NetCfg,
    /// writer called shutdown (or was dropped): EOF after everything is delivered
    writer_closed: bool,
    reader_dropped: bool,
    /// what the reader observes once `delivered` is empty: None = keep waiting
    read_end: Option<CutKind>,
    /// writes fail with BrokenPipe
    write_broken: bool,
    /// writes are silently discarded (EOF cut: "writes into the void")
    write_void: bool,
    /// cut when this many bytes have been delivered to the reader
    pub cut_at: Option<(u64, CutKind, u64)>,
    pub cut_fired: bool,
    reader_waker: Option<Waker>,
    writer_waker: Option<Waker>,
    pump_waker: Option<Waker>,
    pub total_written: u64,
    pub total_delivered: u64,
    pub total_read: u64,
    /// every byte the writer wrote, and when (virtual µs) — the monitor's input
    pub tap: Vec<u8>,
    pub tap_chunks: Vec<Chunk>,
    /// how far a monitor has consumed the tap
    pub tap_cursor: usize,
    /// in-transit corruption plan: (absolute byte offset, xor mask)
    pub corrupt: Vec<(u64, u8)>,
    pub frozen: bool,
    /// fault: shutting down the write half fails (ENOTCONN, as after a reset by the peer or a TLS
    /// close_notify that can no longer be written); the half is closed all the same
    pub shutdown_fails: bool,
}

pub type PipeRef = Arc<Mutex<Pipe>>;

impl Pipe {
    fn new(name: &'static str, cfg: NetCfg) -> Self {
        Pipe {
            name,
            inflight: VecDeque::new(),
            delivered: VecDeque::new(),
            cfg,
            writer_closed: false,
            reader_dropped: false,
            read_end: None,
            write_broken: false,
            write_void: false,
            cut_at: None,
            cut_fired: false,
            reader_waker: None,
            writer_waker: None,
            pump_waker: None,
            total_written: 0,
            total_delivered: 0,
            total_read: 0,
            tap: Vec::new(),
            tap_chunks: Vec::new(),
            tap_cursor: 0,
            corrupt: Vec::new(),
            frozen: false,
            shutdown_fails: false,
        }
    }
    fn wake_all(&mut self) {
        for w in [
            self.reader_waker.take(),
            self.writer_waker.take(),
            self.pump_waker.take(),
        ]
        .into_iter()
        .flatten()
        {
            w.wake();
        }
    }
    /// the writer of this direction has shut its side down (or was dropped)
    pub fn writer_is_closed(&self) -> bool {
        self.writer_closed
    }
    pub fn is_idle(&self) -> bool {
        self.inflight.is_empty() && self.delivered.is_empty()
    }
    pub fn buffered(&self) -> usize {
        self.inflight.len() + self.delivered.len()
    }
}

/// One end of the simulated connection
pub struct SimStream {
    pub name: &'static str,
    rx: PipeRef,
    tx: PipeRef,
}

impl std::fmt::Debug for SimStream {
    fn fmt(&self, f: &mut std::fmt::Formatter<'_>) -> std::fmt::Result {
        write!(f, "SimStream({})", self.name)
    }
}

/// Handle a scenario keeps to observe and disturb the connection
#[derive(Clone)]
pub struct NetHandle {
    /// bytes written by end A (read by B)
    pub a2b: PipeRef,
    /// bytes written by end B (read by A)
    pub b2a: PipeRef,
}

impl SimStream {
    /// Create a connected pair and spawn the two pump tasks
    pub fn pair(a: &'static str, b: &'static str, cfg_ab: NetCfg, cfg_ba: NetCfg) -> (SimStream, SimStream, NetHandle) {
        let a2b = Arc::new(Mutex::new(Pipe::new("a2b", cfg_ab)));
        let b2a = Arc::new(Mutex::new(Pipe::new("b2a", cfg_ba)));
        let sa = SimStream {
            name: a,
            rx: b2a.clone(),
            tx: a2b.clone(),
        };
        let sb = SimStream {
            name: b,
            rx: a2b.clone(),
            tx: b2a.clone(),
        };
        let h = NetHandle {
            a2b: a2b.clone(),
            b2a: b2a.clone(),
        };
        sim::spawn("pump-a2b", pump(a2b.clone(), b2a.clone()));
        sim::spawn("pump-b2a", pump(b2a, a2b));
        (sa, sb, h)
    }
}

impl NetHandle {
    /// Cut the connection now (both directions)
    pub fn cut_now(&self, kind: CutKind) {
        apply_cut(&self.a2b, &self.b2a, kind);
    }
    /// bytes delivered to (client, listener) that the endpoint has not read
    pub fn unread(&self) -> (usize, usize) {
        (
            self.b2a.lock().unwrap().delivered.len(),
            self.a2b.lock().unwrap().delivered.len(),
        )
    }
    pub fn idle(&self) -> bool {
        self.a2b.lock().unwrap().is_idle() && self.b2a.lock().unwrap().is_idle()
    }
    /// Stop (or resume) delivery in the direction A -> B only: what A writes stays in flight, and
    /// once the capacity of the direction is used up A's writes stay pending
    pub fn freeze_a2b(&self, frozen: bool) {
        let mut g = self.a2b.lock().unwrap();
        g.frozen = frozen;
        g.wake_all();
    }
    pub fn freeze(&self, frozen: bool) {
        for p in [&self.a2b, &self.b2a] {
            let mut g = p.lock().unwrap();
            g.frozen = frozen;
            g.wake_all();
        }
    }
}

fn apply_cut(this: &PipeRef, other: &PipeRef, kind: CutKind) {
    let k = if kind == CutKind::StallThenEof { CutKind::Eof } else { kind };
    {
        let mut p = this.lock().unwrap();
        p.cut_fired = true;
        p.inflight.clear();
        p.read_end = Some(k);
        match k {
            CutKind::Reset => p.write_broken = true,
            _ => p.write_void = true,
        }
        p.wake_all();
    }
    {
        let mut o = other.lock().unwrap();
        o.cut_fired = true;
        o.inflight.clear();
        o.read_end = Some(k);
        match k {
            CutKind::Reset => o.write_broken = true,
            _ => o.write_void = true,
        }
        o.wake_all();
    }
}

struct PumpWait<'a>(&'a PipeRef);
impl std::future::Future for PumpWait<'_> {
    /// true = there is something to deliver, false = finished
    type Output = bool;
    fn poll(self: Pin<&mut Self>, cx: &mut Context<'_>) -> Poll<bool> {
        let mut p = self.0.lock().unwrap();
        if p.read_end.is_some() || p.reader_dropped {
            return Poll::Ready(false);
        }
        if !p.inflight.is_empty() && !p.frozen {
            return Poll::Ready(true);
        }
        if p.writer_closed && p.inflight.is_empty() {
            // everything delivered and the writer is gone: clean EOF
            p.read_end = Some(CutKind::Eof);
            if let Some(w) = p.reader_waker.take() {
                w.wake();
            }
            return Poll::Ready(false);
        }
        p.pump_waker = Some(cx.waker().clone());
        Poll::Pending
    }
}

async fn pump(this: PipeRef, other: PipeRef) {
    loop {
        let was_idle = this.lock().unwrap().inflight.is_empty();
        if !PumpWait(&this).await {
            return;
        }
        let (cfg, early) = {
            let p = this.lock().unwrap();
            (p.cfg.clone(), p.total_delivered <= 4096)
        };
        // per-chunk latency for the first 4 KiB of a direction; afterwards latency is a
        // propagation delay paid when the direction goes from idle to busy, so that the
        // simulated network never becomes unboundedly slow for large transfers
        if cfg.latency_us > 0 && (early || was_idle) {
            let d = choice(cfg.latency_us as u32 + 1) as u64;
            if d > 0 {
                tokio::time::sleep(std::time::Duration::from_micros(d)).await;
            }
        }
        if cfg.stall_den > 0 && (early || was_idle) && choice(cfg.stall_den) == 1 {
            sim::fault("net-stall");
            let d = 1 + choice(cfg.stall_ms as u32) as u64;
            tokio::time::sleep(std::time::Duration::from_millis(d)).await;
        }
        let mut stall_cut: Option<u64> = None;
        {
            let mut p = this.lock().unwrap();
            if p.read_end.is_some() {
                return;
            }
            let avail = p.inflight.len();
            if avail == 0 {
                continue;
            }
            let mut mode = if cfg.chunk_mode == 4 { choice(4) } else { cfg.chunk_mode };
            // byte-at-a-time delivery is kept for the first 4 KiB of a direction only
            // (it is the frame headers and the opening exchange that matter there);
            // afterwards it would only multiply steps
            if (mode == 1 || mode == 2) && p.total_delivered > 4096 {
                mode = 3;
            }
            let mtu = if p.total_delivered > 4096 { cfg.mtu.max(1500) } else { cfg.mtu };
            let mut n = match mode {
                0 => avail,
                1 => 1,
                2 => 1 + choice(8) as usize,
                _ => 1 + choice(mtu as u32) as usize,
            }
            .min(avail);
            let mut cut_now = None;
            if let Some((at, kind, stall)) = p.cut_at {
                let left = at.saturating_sub(p.total_delivered) as usize;
                if left <= n {
                    n = left;
                    cut_now = Some((kind, stall));
                }
            }
            if n < avail {
                sim::probe("net-fragmented-delivery");
            }
            for _ in 0..n {
                let mut b = p.inflight.pop_front().unwrap();
                let off = p.total_delivered;
                if !p.corrupt.is_empty() {
                    if let Some(&(_, mask)) = p.corrupt.iter().find(|(o, _)| *o == off) {
                        b ^= mask;
                    }
                }
                p.delivered.push_back(b);
                p.total_delivered += 1;
            }
            sim::evh(0xD1, p.total_delivered, n as u64);
            sim::note_progress();
            crate::trace!("NET pump {} delivered {} bytes (total {})", p.name, n, p.total_delivered);
            if let Some(w) = p.reader_waker.take() {
                w.wake();
            }
            if let Some(w) = p.writer_waker.take() {
                w.wake();
            }
            if let Some((kind, stall)) = cut_now {
                drop(p);
                match kind {
                    CutKind::StallThenEof => {
                        stall_cut = Some(stall);
                    }
                    _ => {
                        sim::fault(match kind {
                            CutKind::Eof => "cut-eof",
                            _ => "cut-reset",
                        });
                        cut_after_delivery(&this, &other, kind);
                        return;
                    }
                }
            }
        }
        if let Some(stall) = stall_cut {
            sim::fault("cut-stall-then-eof");
            {
                this.lock().unwrap().frozen = true;
                other.lock().unwrap().frozen = true;
            }
            tokio::time::sleep(std::time::Duration::from_millis(stall)).await;
            cut_after_delivery(&this, &other, CutKind::Eof);
            let mut o = other.lock().unwrap();
            o.frozen = false;
            o.wake_all();
            return;
        }
    }
}

/// The connection breaks: `this` direction's reader may still consume what was
/// delivered, then sees the end; the opposite reader sees the end at its current
/// position.
fn cut_after_delivery(this: &PipeRef, other: &PipeRef, kind: CutKind) {
    {
        let mut p = this.lock().unwrap();
        p.cut_fired = true;
        p.inflight.clear();
        p.read_end = Some(kind);
        match kind {
            CutKind::Reset => p.write_broken = true,
            _ => p.write_void = true,
        }
        p.wake_all();
    }
    {
        let mut o = other.lock().unwrap();
        o.cut_fired = true;
        o.inflight.clear();
        o.delivered.clear();
        o.read_end = Some(kind);
        match kind {
            CutKind::Reset => o.write_broken = true,
            _ => o.write_void = true,
        }
        o.wake_all();
    }
}

impl AsyncRead for SimStream {
    fn poll_read(self: Pin<&mut Self>, cx: &mut Context<'_>, buf: &mut ReadBuf<'_>) -> Poll<io::Result<()>> {
        let mut p = self.rx.lock().unwrap();
        if buf.remaining() == 0 {
            return Poll::Ready(Ok(()));
        }
        if !p.delivered.is_empty() {
            let mut n = p.delivered.len().min(buf.remaining());
            if p.cfg.short_reads && n > 1 && chance(1, 3) {
                n = 1 + choice(n as u32) as usize;
                sim::probe("net-short-read");
            }
            let (a, b) = p.delivered.as_slices();
            if n <= a.len() {
                buf.put_slice(&a[..n]);
            } else {
                buf.put_slice(a);
                buf.put_slice(&b[..n - a.len()]);
            }
            p.delivered.drain(..n);
            p.total_read += n as u64;
            crate::trace!("NET {} read {} bytes from {}", self.name, n, p.name);
            if let Some(w) = p.writer_waker.take() {
                w.wake();
            }
            return Poll::Ready(Ok(()));
        }
        match p.read_end {
            Some(CutKind::Reset) => Poll::Ready(Err(io::Error::new(
                io::ErrorKind::ConnectionReset,
                "simulated connection reset",
            ))),
            Some(_) => Poll::Ready(Ok(())),
            None => {
                crate::trace!("NET {} read pending on {}", self.name, p.name);
                p.reader_waker = Some(cx.waker().clone());
                Poll::Pending
            }
        }
    }
}

impl AsyncWrite for SimStream {
    fn poll_write(self: Pin<&mut Self>, cx: &mut Context<'_>, data: &[u8]) -> Poll<io::Result<usize>> {
        let mut p = self.tx.lock().unwrap();
        if p.write_broken {
            return Poll::Ready(Err(io::Error::new(
                io::ErrorKind::BrokenPipe,
                "simulated broken pipe",
            )));
        }
        if p.writer_closed {
            return Poll::Ready(Err(io::Error::new(
                io::ErrorKind::BrokenPipe,
                "write after shutdown",
            )));
        }
        if data.is_empty() {
            return Poll::Ready(Ok(0));
        }
        if p.write_void || p.reader_dropped {
            // the peer is gone without a reset: bytes vanish
            return Poll::Ready(Ok(data.len()));
        }
        // Capacity bounds the bytes in flight (the network), not the receiver's socket
        // buffer: a writer is released by the pump, never by the peer's reads, so that two
        // endpoints writing at the same time cannot deadlock on the simulated transport.
        let used = p.inflight.len();
        // tiny capacities matter for the opening exchange and the first frames; later
        // they would only multiply steps
        let capacity = if p.total_written > 4096 { p.cfg.capacity.max(4096) } else { p.cfg.capacity };
        if used >= capacity {
            sim::probe("net-write-backpressure");
            crate::trace!("NET {} write pending (buffered {} >= cap {})", self.name, used, capacity);
            p.writer_waker = Some(cx.waker().clone());
            return Poll::Pending;
        }
        let mut n = data.len().min(capacity - used);
        if p.cfg.short_writes && n > 1 && chance(1, 3) {
            n = 1 + choice(n as u32) as usize;
            sim::probe("net-short-write");
        }
        let start = p.tap.len();
        p.tap.extend_from_slice(&data[..n]);
        let vus = sim::now_us();
        p.tap_chunks.push(Chunk { vus, seq: next_write_seq(), start, len: n });
        p.inflight.extend(&data[..n]);
        p.total_written += n as u64;
        sim::note_progress();
        crate::trace!("NET {} wrote {} of {} bytes", self.name, n, data.len());
        sim::evh_bytes(if p.name == "a2b" { 0xA2B } else { 0xB2A }, &data[..n]);
        if let Some(w) = p.pump_waker.take() {
            w.wake();
        }
        Poll::Ready(Ok(n))
    }

    fn poll_flush(self: Pin<&mut Self>, _cx: &mut Context<'_>) -> Poll<io::Result<()>> {
        Poll::Ready(Ok(()))
    }

    fn poll_shutdown(self: Pin<&mut Self>, _cx: &mut Context<'_>) -> Poll<io::Result<()>> {
        let mut p = self.tx.lock().unwrap();
        p.writer_closed = true;
        if let Some(w) = p.pump_waker.take() {
            w.wake();
        }
        if p.shutdown_fails {
            sim::fault("shutdown-of-the-write-half-fails");
            return Poll::Ready(Err(io::Error::new(io::ErrorKind::NotConnected, "simulated: transport endpoint is not connected")));
        }
        Poll::Ready(Ok(()))
    }
}

impl Drop for SimStream {
    fn drop(&mut self) {
        // Dropping the stream closes both directions like closing a socket:
        // the peer reads what is in flight and then EOF; its writes vanish.
        if let Ok(mut p) = self.tx.lock() {
            p.writer_closed = true;
            p.wake_all();
        }
        if let Ok(mut p) = self.rx.lock() {
            p.reader_dropped = true;
            p.wake_all();
        }
    }
}
