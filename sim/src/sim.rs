//! The simulator core: run state (event-log hash, violation, probes), the
//! executor that owns every task of a run, and `run()` which wraps one run in a
//! paused-clock current-thread tokio runtime.

use std::cell::{Cell, RefCell};
use std::collections::{BTreeMap, VecDeque};
use std::future::Future;
use std::panic::{catch_unwind, AssertUnwindSafe};
use std::pin::Pin;
use std::sync::{Arc, Mutex};
use std::task::{Context, Poll, Wake, Waker};
use std::time::Duration;

use crate::chooser::{self, choice};

// ---------------------------------------------------------------------------------------
// Violations and run state

#[derive(Clone, Debug)]
pub struct Violation {
    pub kind: String,
    /// stable signature of the failing site / input class (known findings key on it)
    pub sig: String,
    pub msg: String,
    pub step: u64,
    pub vms: u64,
    /// true when the violation is a defect of the harness itself (exit 2)
    pub harness: bool,
}

pub struct RunState {
    pub violation: Option<Violation>,
    pub ev_hash: u64,
    pub sched_hash: u64,
    pub trace: bool,
    pub tail: VecDeque<String>,
    pub steps: u64,
    pub probes: BTreeMap<&'static str, u64>,
    pub faults: BTreeMap<&'static str, u64>,
    pub config: String,
    pub nontrivial: bool,
    pub start: Option<tokio::time::Instant>,
    pub end_vms: u64,
    pub tasks: Vec<TaskInfo>,
    /// name -> (times reached, times it yielded, order stamp of the last time)
    pub sched_points: BTreeMap<&'static str, (u64, u64, u64)>,
    pub sched_seq: u64,
    /// schedule points that yield in this run (None = all)
    pub sched_yield_den: u32,
}

#[derive(Clone, Debug)]
pub struct TaskInfo {
    pub name: &'static str,
    pub engine: bool,
    pub alive: bool,
    pub polls: u64,
    pub group: u32,
}

impl RunState {
    fn new(trace: bool) -> Self {
        RunState {
            violation: None,
            ev_hash: 0xcbf2_9ce4_8422_2325,
            sched_hash: 0xcbf2_9ce4_8422_2325,
            trace,
            tail: VecDeque::new(),
            steps: 0,
            probes: BTreeMap::new(),
            faults: BTreeMap::new(),
            config: String::new(),
            nontrivial: false,
            start: None,
            end_vms: 0,
            tasks: Vec::new(),
            sched_points: BTreeMap::new(),
            sched_seq: 0,
            sched_yield_den: 2,
        }
    }
}

thread_local! {
    static STATE: RefCell<Option<RunState>> = const { RefCell::new(None) };
    static SPAWNQ: RefCell<Vec<(&'static str, bool, u32, LocalTask)>> = const { RefCell::new(Vec::new()) };
    static LAST_PANIC: RefCell<Option<String>> = const { RefCell::new(None) };
    static CUR_GROUP: Cell<u32> = const { Cell::new(0) };
    static IN_TASK_POLL: Cell<bool> = const { Cell::new(false) };
    static STEP_HOOK: RefCell<Option<Box<dyn FnMut()>>> = const { RefCell::new(None) };
    static PROGRESS: Cell<u64> = const { Cell::new(0) };
    static CASE: Cell<u64> = const { Cell::new(0) };
    static IDLE_WAITERS: RefCell<Vec<(Waker, std::rc::Rc<Cell<bool>>)>> = const { RefCell::new(Vec::new()) };
    static HANG_CLASSIFIER: RefCell<Option<Box<dyn Fn() -> String>>> = const { RefCell::new(None) };
}

/// The enumeration case of this run (fault plans that are parameters outside the choice stream)
pub fn case() -> u64 {
    CASE.with(|c| c.get())
}

pub fn set_case(c: u64) {
    CASE.with(|x| x.set(c))
}

/// Called whenever bytes move on the simulated network (spin detection)
pub fn note_progress() {
    PROGRESS.with(|p| p.set(p.get() + 1))
}

/// Steps without any byte moving on the network, any task finishing and any advance
/// of virtual time before the run is declared a spin
pub const SPIN_STEPS: u64 = 200_000;

/// Install a function that names the signature of a hang when one is detected
pub fn set_hang_classifier(f: Box<dyn Fn() -> String>) {
    HANG_CLASSIFIER.with(|h| *h.borrow_mut() = Some(f));
}

pub fn classify_hang() -> String {
    HANG_CLASSIFIER.with(|h| h.borrow().as_ref().map(|f| f()).unwrap_or_default())
}

/// Install a callback that runs after every scheduler step (invariant checks)
pub fn set_step_hook(f: Box<dyn FnMut()>) {
    // a second hook (second monitor in the same run) runs after the first
    let prev = STEP_HOOK.with(|h| h.borrow_mut().take());
    let combined: Box<dyn FnMut()> = match prev {
        Some(mut p) => {
            let mut f = f;
            Box::new(move || {
                p();
                f();
            })
        }
        None => f,
    };
    STEP_HOOK.with(|h| *h.borrow_mut() = Some(combined));
}

fn run_step_hook() {
    let hook = STEP_HOOK.with(|h| h.borrow_mut().take());
    if let Some(mut f) = hook {
        f();
        STEP_HOOK.with(|h| {
            let mut g = h.borrow_mut();
            if g.is_none() {
                *g = Some(f);
            }
        });
    }
}

pub const TAIL_MAX: usize = 400;

fn tail_max() -> usize {
    static FULL: std::sync::OnceLock<bool> = std::sync::OnceLock::new();
    if *FULL.get_or_init(|| std::env::var("VERIF_TRACE_FULL").is_ok()) {
        usize::MAX
    } else {
        TAIL_MAX
    }
}

fn with_state<R>(f: impl FnOnce(&mut RunState) -> R) -> R {
    STATE.with(|s| f(s.borrow_mut().as_mut().expect("run state not installed")))
}

#[inline]
fn mix(h: u64, v: u64) -> u64 {
    (h ^ v).wrapping_mul(0x0000_0100_0000_01B3).rotate_left(23)
}

/// Fold data into the event-log hash
pub fn evh(kind: u64, a: u64, b: u64) {
    with_state(|s| {
        s.ev_hash = mix(mix(mix(s.ev_hash, kind), a), b);
    })
}

pub fn evh_bytes(kind: u64, data: &[u8]) {
    with_state(|s| {
        let mut h = mix(s.ev_hash, kind);
        for chunk in data.chunks(8) {
            let mut b = [0u8; 8];
            b[..chunk.len()].copy_from_slice(chunk);
            h = mix(h, u64::from_le_bytes(b));
        }
        s.ev_hash = mix(h, data.len() as u64);
    })
}

pub fn tracing() -> bool {
    STATE.with(|s| s.borrow().as_ref().map(|s| s.trace).unwrap_or(false))
}

pub fn trace_line(line: String) {
    with_state(|s| {
        let vms = s
            .start
            .map(|st| tokio::time::Instant::now().duration_since(st).as_millis() as u64)
            .unwrap_or(0);
        if s.tail.len() >= tail_max() {
            s.tail.pop_front();
        }
        s.tail.push_back(format!("[{:>6} t={}ms] {}", s.steps, vms, line));
    })
}

#[macro_export]
macro_rules! trace {
    ($($arg:tt)*) => {
        if $crate::sim::tracing() {
            $crate::sim::trace_line(format!($($arg)*));
        }
    };
}

pub fn now_ms() -> u64 {
    with_state(|s| {
        s.start
            .map(|st| tokio::time::Instant::now().duration_since(st).as_millis() as u64)
            .unwrap_or(0)
    })
}

pub fn now_us() -> u64 {
    with_state(|s| {
        s.start
            .map(|st| tokio::time::Instant::now().duration_since(st).as_micros() as u64)
            .unwrap_or(0)
    })
}

pub fn violation(kind: &str, msg: String) {
    violation_sig(kind, "", msg)
}

pub fn violation_sig(kind: &str, sig: &str, msg: String) {
    let vms = now_ms();
    with_state(|s| {
        if s.violation.is_none() {
            if s.trace {
                let line = format!("[{:>6} t={}ms] VIOLATION {}: {}", s.steps, vms, kind, msg);
                s.tail.push_back(line);
            }
            s.violation = Some(Violation {
                kind: kind.to_string(),
                sig: sig.to_string(),
                msg,
                step: s.steps,
                vms,
                harness: false,
            });
        }
    })
}

pub fn harness_error(kind: &str, msg: String) {
    let vms = now_ms();
    with_state(|s| {
        // a harness error overrides: nothing else from this run is believed
        if s.violation.as_ref().map(|v| !v.harness).unwrap_or(true) {
            s.violation = Some(Violation {
                kind: format!("harness:{}", kind),
                sig: String::new(),
                msg,
                step: s.steps,
                vms,
                harness: true,
            });
        }
    })
}

pub fn has_violation() -> bool {
    STATE.with(|s| {
        s.borrow()
            .as_ref()
            .map(|s| s.violation.is_some())
            .unwrap_or(false)
    })
}

pub fn probe(name: &'static str) {
    with_state(|s| *s.probes.entry(name).or_insert(0) += 1)
}

pub fn probe_n(name: &'static str, n: u64) {
    with_state(|s| *s.probes.entry(name).or_insert(0) += n)
}

pub fn fault(name: &'static str) {
    with_state(|s| {
        *s.faults.entry(name).or_insert(0) += 1;
        s.nontrivial = true;
    })
}

pub fn mark_nontrivial() {
    with_state(|s| s.nontrivial = true)
}

pub fn set_config(line: String) {
    with_state(|s| s.config = line)
}

pub fn append_config(line: &str) {
    with_state(|s| {
        if !s.config.is_empty() {
            s.config.push(' ');
        }
        s.config.push_str(line)
    })
}

pub fn set_sched_yield_den(den: u32) {
    with_state(|s| s.sched_yield_den = den)
}

/// Names of tasks that are still alive (engine tasks only if `engine_only`)
pub fn alive_tasks(engine_only: bool, group: Option<u32>) -> Vec<&'static str> {
    with_state(|s| {
        s.tasks
            .iter()
            .filter(|t| t.alive && (!engine_only || t.engine))
            .filter(|t| group.map(|g| t.group == g).unwrap_or(true))
            .map(|t| t.name)
            .collect()
    })
}

/// Tasks spawned from now on by the current task (through `spawn` or the spawn
/// seam) belong to `group`; the setting is per task and inherited by the tasks it
/// spawns. Groups let a scenario tell the engine tasks of several connections apart.
pub fn set_group(group: u32) {
    CUR_GROUP.with(|g| g.set(group))
}

pub fn current_group() -> u32 {
    CUR_GROUP.with(|g| g.get())
}

// ---------------------------------------------------------------------------------------
// Executor

pub type LocalTask = Pin<Box<dyn Future<Output = ()>>>;

struct ReadyQ {
    queue: Vec<usize>,
    queued: Vec<bool>,
}

struct Shared {
    ready: Mutex<ReadyQ>,
    outer: Mutex<Option<Waker>>,
}

struct TaskWaker {
    id: usize,
    shared: Arc<Shared>,
}

impl Wake for TaskWaker {
    fn wake(self: Arc<Self>) {
        self.wake_by_ref()
    }
    fn wake_by_ref(self: &Arc<Self>) {
        let mut newly = false;
        {
            let mut r = self.shared.ready.lock().unwrap();
            if self.id < r.queued.len() && !r.queued[self.id] {
                r.queued[self.id] = true;
                r.queue.push(self.id);
                newly = true;
            }
        }
        if newly {
            let w = self.shared.outer.lock().unwrap().clone();
            if let Some(w) = w {
                w.wake();
            }
        }
    }
}

struct Slot {
    stalled_until: Option<tokio::time::Instant>,
    fut: Option<LocalTask>,
    waker: Waker,
    prio: u32,
    bypassed: u32,
    group: u32,
}

#[derive(Clone, Copy, Debug, PartialEq)]
pub enum Strategy {
    FifoDev(u32),
    Uniform,
    Priority,
}

pub struct Limits {
    pub max_steps: u64,
    pub max_virtual: Duration,
}

impl Default for Limits {
    fn default() -> Self {
        Limits {
            max_steps: 3_000_000,
            max_virtual: Duration::from_secs(7200),
        }
    }
}

struct Executor {
    /// entries of the ready queue that were there at the last pick (already in canonical order)
    stable_len: usize,
    last_progress: (u64, u64, u64),
    shared: Arc<Shared>,
    slots: Vec<Slot>,
    strategy: Strategy,
    main_id: usize,
    main_done: bool,
    limits: Limits,
    deadline: Pin<Box<tokio::time::Sleep>>,
    /// tasks that were picked while stalled (fault "task-stalled"): woken again at that instant
    stalled: Vec<(tokio::time::Instant, usize)>,
    stall_timer: Option<Pin<Box<tokio::time::Sleep>>>,
    /// the simulated processor is busy until this timer fires (fault "processing-takes-time")
    cpu_busy: Option<Pin<Box<tokio::time::Sleep>>>,
    /// wall-clock start of the run (for the work budget)
    wall_start: std::time::Instant,
    cpu_start_ms: u64,
}

/// Work budget of one run in wall-clock time. Runs take milliseconds, the heaviest a second or two; a
/// run that is still computing after this long is doing work out of all proportion to its input
/// (thousands of times the usual). The same seed burns the same time on replay.
/// processor-time budget of one run in seconds (runs use up to ~0.2 s; see the evidence files)
pub const RUN_WALL_BUDGET_S: u64 = 30;

/// Processor time this process has used so far, in milliseconds (utime + stime of /proc/self/stat;
/// the worker runs one simulation at a time on one thread). Unlike wall time it does not depend on
/// what else the machine is doing, so a run that trips a work budget trips it again on replay.
pub fn process_cpu_ms() -> u64 {
    let stat = match std::fs::read_to_string("/proc/self/stat") {
        Ok(s) => s,
        Err(_) => return 0,
    };
    // fields after the command name (which may contain spaces) start behind the last ')'
    let rest = match stat.rfind(')') {
        Some(i) => &stat[i + 1..],
        None => return 0,
    };
    let f: Vec<&str> = rest.split_whitespace().collect();
    // rest[0] is field 3 (state); utime is field 14, stime field 15
    let utime: u64 = f.get(11).and_then(|x| x.parse().ok()).unwrap_or(0);
    let stime: u64 = f.get(12).and_then(|x| x.parse().ok()).unwrap_or(0);
    (utime + stime) * 10 // USER_HZ = 100 on Linux
}

thread_local! {
    static CPU_COST: std::cell::Cell<(u32, u64)> = std::cell::Cell::new((0, 0));
}

/// Fault: every poll of a task of `group` takes `micros` of virtual time, during which nothing else
/// runs (one processor). Without it a task poll takes no virtual time at all, so that an endpoint is
/// never "busy" when a timer falls due. Per run; reset by the runner.
pub fn set_cpu_cost(group: u32, micros: u64) {
    CPU_COST.with(|c| c.set((group, micros)));
    if micros > 0 {
        fault("processing-takes-time");
    }
}

thread_local! {
    static STALL_REQ: RefCell<Vec<(&'static str, u32, u64)>> = RefCell::new(Vec::new());
}

/// Fault: the task(s) of that name in that group are not scheduled for `ms` virtual milliseconds
/// (a stalled node / a thread that is not run for a while). What wakes them in the meantime is
/// remembered: they run again when the stall is over.
pub fn stall_task(name: &'static str, group: u32, ms: u64) {
    STALL_REQ.with(|q| q.borrow_mut().push((name, group, ms)));
    fault("task-stalled");
}

/// Spawn a simulator-owned task (workload, pump, scripted peer)
pub fn spawn<F: Future<Output = ()> + 'static>(name: &'static str, fut: F) {
    let g = current_group();
    SPAWNQ.with(|q| q.borrow_mut().push((name, false, g, Box::pin(fut))));
}

fn spawn_engine(name: &'static str, fut: fe2o3_amqp::verif::BoxedTask) {
    let fut: LocalTask = fut;
    let g = current_group();
    SPAWNQ.with(|q| q.borrow_mut().push((name, true, g, fut)));
}

impl Executor {
    fn absorb_spawns(&mut self) {
        loop {
            let items: Vec<_> = SPAWNQ.with(|q| std::mem::take(&mut *q.borrow_mut()));
            if items.is_empty() {
                break;
            }
            for (name, engine, group, fut) in items {
                let id = self.slots.len();
                let waker = Waker::from(Arc::new(TaskWaker {
                    id,
                    shared: self.shared.clone(),
                }));
                let prio = if self.strategy == Strategy::Priority {
                    choice(1 << 16)
                } else {
                    0
                };
                self.slots.push(Slot {
                    stalled_until: None,
                    fut: Some(fut),
                    waker,
                    prio,
                    bypassed: 0,
                    group,
                });
                with_state(|s| {
                    s.tasks.push(TaskInfo {
                        name,
                        engine,
                        alive: true,
                        polls: 0,
                        group,
                    })
                });
                let mut r = self.shared.ready.lock().unwrap();
                r.queued.push(true);
                r.queue.push(id);
                crate::trace!("spawn task#{} {}{}", id, name, if engine { " (engine)" } else { "" });
            }
        }
    }

    fn pick(&mut self) -> Option<usize> {
        let mut r = self.shared.ready.lock().unwrap();
        let len = r.queue.len();
        if len == 0 {
            self.stable_len = 0;
            return None;
        }
        // Tasks woken since the last pick are queued in task-id order, not in the order the code
        // under test happened to wake them (which follows the iteration order of its hash maps
        // when a session or connection drops its channels): the schedule is the scheduler's
        // choice alone
        let sl = self.stable_len.min(len);
        r.queue[sl..].sort_unstable();
        let idx = if len == 1 {
            0
        } else {
            match self.strategy {
                Strategy::FifoDev(den) => {
                    if choice(den) == 1 {
                        choice(len as u32) as usize
                    } else {
                        0
                    }
                }
                Strategy::Uniform => choice(len as u32) as usize,
                Strategy::Priority => {
                    // bounded bypass keeps liveness oracles sound
                    let mut best = 0usize;
                    let mut starving: Option<usize> = None;
                    for (i, &id) in r.queue.iter().enumerate() {
                        if self.slots[id].bypassed > 64 {
                            starving = Some(i);
                            break;
                        }
                        if self.slots[id].prio > self.slots[r.queue[best]].prio {
                            best = i;
                        }
                    }
                    let pick = starving.unwrap_or(best);
                    for (i, &id) in r.queue.iter().enumerate() {
                        if i != pick {
                            self.slots[id].bypassed += 1;
                        }
                    }
                    let id = r.queue[pick];
                    self.slots[id].bypassed = 0;
                    if choice(48) == 1 {
                        self.slots[id].prio = choice(1 << 16);
                    }
                    pick
                }
            }
        };
        let id = r.queue.remove(idx);
        r.queued[id] = false;
        self.stable_len = r.queue.len();
        Some(id)
    }
}

impl Future for Executor {
    type Output = ();
    fn poll(mut self: Pin<&mut Self>, cx: &mut Context<'_>) -> Poll<()> {
        let this = &mut *self;
        {
            let mut o = this.shared.outer.lock().unwrap();
            match &*o {
                Some(w) if w.will_wake(cx.waker()) => {}
                _ => *o = Some(cx.waker().clone()),
            }
        }
        this.absorb_spawns();
        if has_violation() || this.main_done {
            return Poll::Ready(());
        }
        if this.deadline.as_mut().poll(cx).is_ready() {
            violation(
                "hang",
                format!(
                    "run exceeded the global virtual deadline of {} s; alive tasks: {:?}",
                    this.limits.max_virtual.as_secs(),
                    alive_tasks(false, None)
                ),
            );
            return Poll::Ready(());
        }
        if let Some(b) = this.cpu_busy.as_mut() {
            if b.as_mut().poll(cx).is_pending() {
                return Poll::Pending;
            }
            this.cpu_busy = None;
        }
        // stall requests and stalls that are over
        let reqs = STALL_REQ.with(|q| std::mem::take(&mut *q.borrow_mut()));
        if !reqs.is_empty() {
            let now = tokio::time::Instant::now();
            for (name, group, ms) in reqs {
                let ids: Vec<usize> = with_state(|s| s.tasks.iter().enumerate().filter(|(_, t)| t.alive && t.name == name && t.group == group).map(|(i, _)| i).collect());
                for id in ids {
                    this.slots[id].stalled_until = Some(now + Duration::from_millis(ms));
                }
            }
        }
        if !this.stalled.is_empty() {
            let now = tokio::time::Instant::now();
            let mut k = 0;
            while k < this.stalled.len() {
                if this.stalled[k].0 <= now {
                    let (_, id) = this.stalled.remove(k);
                    this.slots[id].stalled_until = None;
                    this.slots[id].waker.wake_by_ref();
                } else {
                    k += 1;
                }
            }
            match this.stalled.iter().map(|x| x.0).min() {
                Some(t) => {
                    let mut sl = Box::pin(tokio::time::sleep_until(t));
                    let _ = sl.as_mut().poll(cx);
                    this.stall_timer = Some(sl);
                }
                None => this.stall_timer = None,
            }
        }
        let id = match this.pick() {
            Some(id) => id,
            None => {
                // Nothing is runnable. Tasks waiting for exactly this moment (`until_idle`)
                // are released now; otherwise tokio parks and the paused clock jumps to
                // the next timer.
                let waiters = IDLE_WAITERS.with(|w| std::mem::take(&mut *w.borrow_mut()));
                if waiters.is_empty() {
                    return Poll::Pending;
                }
                for (w, released) in waiters {
                    released.set(true);
                    w.wake();
                }
                cx.waker().wake_by_ref();
                return Poll::Pending;
            }
        };
        if let Some(t) = this.slots[id].stalled_until {
            if tokio::time::Instant::now() < t {
                // not run now: put aside until the stall is over
                if !this.stalled.iter().any(|x| x.1 == id) {
                    this.stalled.push((t, id));
                }
                cx.waker().wake_by_ref();
                return Poll::Pending;
            }
            this.slots[id].stalled_until = None;
        }
        if with_state(|s| s.steps) & 0xff == 0 && this.wall_start.elapsed().as_secs() >= 2 && process_cpu_ms().saturating_sub(this.cpu_start_ms) >= RUN_WALL_BUDGET_S * 1000 {
            violation(
                "work-out-of-proportion",
                format!(
                    "the run has used {} s of processor time ({} scheduler steps, {} virtual ms): thousands of times what runs of this kind take; busiest tasks {:?}",
                    RUN_WALL_BUDGET_S,
                    with_state(|s| s.steps),
                    now_ms(),
                    busiest()
                ),
            );
            return Poll::Ready(());
        }
        let steps = with_state(|s| {
            s.steps += 1;
            s.sched_hash = mix(s.sched_hash, id as u64);
            s.ev_hash = mix(s.ev_hash, 0x7A5C ^ ((id as u64) << 16));
            s.tasks[id].polls += 1;
            s.steps
        });
        if this.slots[id].fut.is_some() {
            let waker = this.slots[id].waker.clone();
            let mut tcx = Context::from_waker(&waker);
            set_group(this.slots[id].group);
            let fut = this.slots[id].fut.as_mut().unwrap();
            IN_TASK_POLL.with(|f| f.set(true));
            crate::runner::STEP_BEAT.fetch_add(1, std::sync::atomic::Ordering::Relaxed);
            let res = catch_unwind(AssertUnwindSafe(|| fut.as_mut().poll(&mut tcx)));
            crate::runner::STEP_BEAT.fetch_add(1, std::sync::atomic::Ordering::Relaxed);
            IN_TASK_POLL.with(|f| f.set(false));
            this.slots[id].group = current_group();
            set_group(0);
            {
                let (g, us) = CPU_COST.with(|c| c.get());
                if us > 0 && g == this.slots[id].group {
                    this.cpu_busy = Some(Box::pin(tokio::time::sleep(Duration::from_micros(us))));
                }
            }
            if tracing() && std::env::var("VERIF_TRACE_POLLS").is_ok() {
                let name = with_state(|s| s.tasks[id].name);
                trace_line(format!("poll task#{} {} -> {}", id, name, match &res { Ok(Poll::Pending) => "pending", Ok(Poll::Ready(())) => "ready", Err(_) => "PANIC" }));
            }
            match res {
                Ok(Poll::Pending) => {}
                Ok(Poll::Ready(())) => {
                    this.slots[id].fut = None;
                    let name = with_state(|s| {
                        s.tasks[id].alive = false;
                        s.tasks[id].name
                    });
                    crate::trace!("task#{} {} finished", id, name);
                    if id == this.main_id {
                        this.main_done = true;
                    }
                }
                Err(_) => {
                    // leak the future: dropping a half-poisoned future may panic again
                    let f = this.slots[id].fut.take();
                    std::mem::forget(f);
                    let (name, engine) = with_state(|s| {
                        s.tasks[id].alive = false;
                        (s.tasks[id].name, s.tasks[id].engine)
                    });
                    let msg = LAST_PANIC
                        .with(|p| p.borrow_mut().take())
                        .unwrap_or_else(|| "<no message>".into());
                    // a panic raised inside the code under test is a violation whichever task ran it
                    if engine || PANIC_IS_VIOLATION.with(|p| p.get()) || msg.contains("/repo/") {
                        violation("panic", format!("task {} panicked: {}", name, msg));
                    } else {
                        harness_error("sim-task-panic", format!("task {} panicked: {}", name, msg));
                    }
                    if id == this.main_id {
                        this.main_done = true;
                    }
                }
            }
        }
        this.absorb_spawns();
        run_step_hook();
        {
            let mark = PROGRESS.with(|p| p.get());
            let now = now_us();
            if mark != this.last_progress.0 || now != this.last_progress.1 || this.main_done {
                this.last_progress = (mark, now, steps);
            } else if steps - this.last_progress.2 > SPIN_STEPS {
                violation(
                    "spin",
                    format!(
                        "{} scheduler steps without a byte moving on the network or virtual time advancing; busiest tasks: {:?}",
                        SPIN_STEPS,
                        busiest()
                    ),
                );
            }
        }
        if steps > this.limits.max_steps {
            violation(
                "spin",
                format!(
                    "step budget of {} polls exhausted; busiest tasks: {:?}",
                    this.limits.max_steps,
                    busiest()
                ),
            );
        }
        if has_violation() || this.main_done {
            return Poll::Ready(());
        }
        cx.waker().wake_by_ref();
        Poll::Pending
    }
}

thread_local! {
    /// When set, a panic inside *any* task (e.g. the application task that calls
    /// `recv`) counts as a violation of the property, not as a harness error.
    static PANIC_IS_VIOLATION: Cell<bool> = const { Cell::new(false) };
}

pub fn set_panic_is_violation(v: bool) {
    PANIC_IS_VIOLATION.with(|p| p.set(v))
}

fn busiest() -> Vec<(&'static str, u64)> {
    with_state(|s| {
        let mut v: Vec<_> = s.tasks.iter().map(|t| (t.name, t.polls)).collect();
        v.sort_by(|a, b| b.1.cmp(&a.1));
        v.truncate(4);
        v
    })
}

// ---------------------------------------------------------------------------------------
// One run

pub struct RunResult {
    pub violation: Option<Violation>,
    pub ev_hash: u64,
    pub sched_hash: u64,
    pub steps: u64,
    pub vms: u64,
    pub choices: Vec<u32>,
    pub probes: BTreeMap<&'static str, u64>,
    pub faults: BTreeMap<&'static str, u64>,
    pub config: String,
    pub nontrivial: bool,
    pub tail: Vec<String>,
    pub tasks: Vec<TaskInfo>,
}

pub enum Source {
    Seed,
    Replay(Vec<u32>),
}

pub fn install_panic_hook() {
    static ONCE: std::sync::Once = std::sync::Once::new();
    ONCE.call_once(|| {
        let verbose = std::env::var("VERIF_VERBOSE").is_ok();
        let prev = std::panic::take_hook();
        std::panic::set_hook(Box::new(move |info| {
            let msg = if let Some(s) = info.payload().downcast_ref::<&str>() {
                s.to_string()
            } else if let Some(s) = info.payload().downcast_ref::<String>() {
                s.clone()
            } else {
                "<non-string panic>".to_string()
            };
            let loc = info
                .location()
                .map(|l| format!("{}:{}", l.file(), l.line()))
                .unwrap_or_default();
            let in_task = IN_TASK_POLL.with(|f| f.get());
            // A panic raised inside a dependency (bytes, tokio, ...) belongs to whoever called
            // it: walk the backtrace outwards and see whether code of the library under test or
            // code of the harness comes first
            let mut via = String::new();
            if in_task && !loc.contains("/repo/") {
                let bt = std::backtrace::Backtrace::force_capture().to_string();
                let first_repo = bt.find("/repo/");
                let first_sim = bt.find("/verif/sim/src/");
                if let Some(i) = first_repo {
                    if first_sim.map(|j| i < j).unwrap_or(true) {
                        let tail = &bt[i..];
                        let end = tail.find('\n').unwrap_or(tail.len());
                        via = format!(" (raised in a dependency, called from code at {})", tail[..end].trim());
                    }
                }
            }
            LAST_PANIC.with(|p| *p.borrow_mut() = Some(format!("{} at {}{}", msg, loc, via)));
            if verbose || !in_task {
                prev(info);
            }
        }));
    });
}

/// Execute one simulated run: `main` is the scenario's root task.
pub fn run<F, Fut>(seed: u64, source: Source, trace: bool, limits: Limits, main: F) -> RunResult
where
    F: FnOnce() -> Fut,
    Fut: Future<Output = ()> + 'static,
{
    install_panic_hook();
    let ch = match source {
        Source::Seed => chooser::Chooser::from_seed(seed),
        Source::Replay(v) => chooser::Chooser::from_replay(seed, v),
    };
    chooser::install(ch);
    STATE.with(|s| *s.borrow_mut() = Some(RunState::new(trace)));
    SPAWNQ.with(|q| q.borrow_mut().clear());
    STEP_HOOK.with(|h| *h.borrow_mut() = None);
    HANG_CLASSIFIER.with(|h| *h.borrow_mut() = None);
    reset_pending_ops();
    PROGRESS.with(|p| p.set(0));
    IDLE_WAITERS.with(|w| w.borrow_mut().clear());
    crate::net::reset_write_seq();
    CUR_GROUP.with(|g| g.set(0));
    PANIC_IS_VIOLATION.with(|p| p.set(false));

    let mut seed_bytes = [0u8; 32];
    {
        let mut x = chooser::Xoshiro::new(seed ^ 0x70C1_0C10);
        for c in seed_bytes.chunks_mut(8) {
            c.copy_from_slice(&x.next().to_le_bytes());
        }
    }
    let rt = tokio::runtime::Builder::new_current_thread()
        .enable_time()
        .start_paused(true)
        .rng_seed(tokio::runtime::RngSeed::from_bytes(&seed_bytes))
        .build()
        .expect("runtime");

    set_observe_ignore_group(None);
    CPU_COST.with(|c| c.set((0, 0)));
    fe2o3_amqp::verif::install(fe2o3_amqp::verif::Hooks {
        spawn: Box::new(spawn_engine),
        sched_point: Box::new(|name| {
            // H9: the connection engine gives up the processor after every iteration of its loop when
            // (and only when) processing is set to take time: one frame handled = one poll = one unit
            // of virtual processing time. No choice is drawn for it.
            if name == "connection.engine.iteration" {
                let (g, us) = CPU_COST.with(|c| c.get());
                return us > 0 && g == current_group();
            }
            // names under `observe.` only tell the harness where a future is: they never yield
            // (a yield there would be an await point the production code does not have)
            let den = if name.starts_with("observe.") { 0 } else { with_state(|s| s.sched_yield_den) };
            let y = if den == 0 { false } else { choice(den) == 1 };
            // a scenario that runs a second sender or receiver of the same kind on the other endpoint
            // keeps that one's observation points out of the counters
            if den == 0 && OBSERVE_IGNORE_GROUP.with(|g| g.get()) == Some(current_group()) {
                return y;
            }
            with_state(|s| {
                s.sched_seq += 1;
                let stamp = s.sched_seq;
                let e = s.sched_points.entry(name).or_insert((0, 0, 0));
                e.0 += 1;
                e.2 = stamp;
                if y {
                    e.1 += 1;
                    *s.probes.entry("h2-yielded").or_insert(0) += 1;
                }
            });
            y
        }),
        entropy: Box::new(chooser::entropy),
    });

    let outcome = catch_unwind(AssertUnwindSafe(|| {
        rt.block_on(async {
            with_state(|s| s.start = Some(tokio::time::Instant::now()));
            let strategy = match choice(4) {
                0 | 1 => Strategy::FifoDev(*[8u32, 3, 16, 2].get(choice(4) as usize).unwrap()),
                2 => Strategy::Uniform,
                _ => Strategy::Priority,
            };
            let shared = Arc::new(Shared {
                ready: Mutex::new(ReadyQ {
                    queue: Vec::new(),
                    queued: Vec::new(),
                }),
                outer: Mutex::new(None),
            });
            let deadline = Box::pin(tokio::time::sleep(limits.max_virtual));
            let mut ex = Executor {
                stable_len: 0,
                last_progress: (0, 0, 0),
                shared,
                slots: Vec::new(),
                strategy,
                main_id: 0,
                main_done: false,
                limits,
                deadline,
                stalled: Vec::new(),
                stall_timer: None,
                cpu_busy: None,
                wall_start: std::time::Instant::now(),
                cpu_start_ms: process_cpu_ms(),
            };
            spawn("main", main());
            ex.absorb_spawns();
            ex.await;
            let vms = now_ms();
            with_state(|s| s.end_vms = vms);
        });
    }));
    fe2o3_amqp::verif::uninstall();
    STEP_HOOK.with(|h| *h.borrow_mut() = None);
    HANG_CLASSIFIER.with(|h| *h.borrow_mut() = None);
    // Tasks still alive hold channel ends etc.; drop them with the runtime, inside
    // catch_unwind (a Drop impl that panics must not take the worker down).
    let drop_res = catch_unwind(AssertUnwindSafe(move || drop(rt)));
    let ch = chooser::take().unwrap();
    let mut st = STATE.with(|s| s.borrow_mut().take()).unwrap();
    if outcome.is_err() || drop_res.is_err() {
        let msg = LAST_PANIC
            .with(|p| p.borrow_mut().take())
            .unwrap_or_else(|| "<no message>".into());
        if st.violation.is_none() {
            st.violation = Some(Violation {
                kind: "harness:run-panic".into(),
                sig: String::new(),
                msg,
                step: st.steps,
                vms: st.end_vms,
                harness: true,
            });
        }
    }
    RunResult {
        violation: st.violation,
        ev_hash: st.ev_hash,
        sched_hash: st.sched_hash,
        steps: st.steps,
        vms: st.end_vms,
        choices: ch.log,
        probes: st.probes,
        faults: st.faults,
        config: st.config,
        nontrivial: st.nontrivial,
        tail: st.tail.into_iter().collect(),
        tasks: st.tasks,
    }
}

// ---------------------------------------------------------------------------------------
// Helpers for scenario tasks

/// Yield to the scheduler once
pub async fn yield_now() {
    struct Y(bool);
    impl Future for Y {
        type Output = ();
        fn poll(mut self: Pin<&mut Self>, cx: &mut Context<'_>) -> Poll<()> {
            if self.0 {
                Poll::Ready(())
            } else {
                self.0 = true;
                cx.waker().wake_by_ref();
                Poll::Pending
            }
        }
    }
    Y(false).await
}

pub async fn sleep_ms(ms: u64) {
    tokio::time::sleep(Duration::from_millis(ms)).await
}

/// Default bound for "completes within bounded time once faults stop"
pub const OP_DEADLINE: Duration = Duration::from_secs(600);

/// Await `fut`; if it does not complete within the virtual deadline report a hang
/// violation naming the operation and return None.
pub async fn op<T>(what: &str, fut: impl Future<Output = T>) -> Option<T> {
    let _guard = PendingOp::new(what);
    match tokio::time::timeout(OP_DEADLINE, fut).await {
        Ok(v) => Some(v),
        Err(_) => {
            let sig = classify_hang();
            violation_sig(
                "hang",
                &sig,
                format!(
                    "operation `{}` still pending {} virtual seconds after it was issued; all pending operations {:?}; alive tasks {:?}",
                    what,
                    OP_DEADLINE.as_secs(),
                    pending_ops(),
                    alive_tasks(false, None)
                ),
            );
            None
        }
    }
}

thread_local! {
    static PENDING_OPS: RefCell<Vec<(u64, String)>> = RefCell::new(Vec::new());
    static PENDING_NEXT: Cell<u64> = Cell::new(0);
}

struct PendingOp(u64);

impl PendingOp {
    fn new(what: &str) -> Self {
        let id = PENDING_NEXT.with(|n| {
            n.set(n.get() + 1);
            n.get()
        });
        PENDING_OPS.with(|p| p.borrow_mut().push((id, what.to_string())));
        PendingOp(id)
    }
}

impl Drop for PendingOp {
    fn drop(&mut self) {
        PENDING_OPS.with(|p| p.borrow_mut().retain(|(id, _)| *id != self.0));
    }
}

/// How often the named schedule / observation point of the code under test was reached
thread_local! {
    static OBSERVE_IGNORE_GROUP: std::cell::Cell<Option<u32>> = std::cell::Cell::new(None);
}

/// Observation points (`observe.*`) reached by tasks of this group are not counted (per run; reset
/// by the runner before every run)
pub fn set_observe_ignore_group(g: Option<u32>) {
    OBSERVE_IGNORE_GROUP.with(|c| c.set(g));
}

pub fn sched_point_count(name: &str) -> u64 {
    with_state(|s| s.sched_points.get(name).map(|e| e.0).unwrap_or(0))
}

/// Order stamp of the last time the named point was reached (0: never); stamps of different names
/// compare as "which came last"
pub fn sched_point_last(name: &str) -> u64 {
    with_state(|s| s.sched_points.get(name).map(|e| e.2).unwrap_or(0))
}

/// Names of the operations issued through `op` that have not completed, oldest first
pub fn pending_ops() -> Vec<String> {
    PENDING_OPS.with(|p| p.borrow().iter().map(|(_, w)| w.clone()).collect())
}

fn reset_pending_ops() {
    PENDING_OPS.with(|p| p.borrow_mut().clear());
}

/// Run `fut` with the task group set to `group` during each of its polls
pub async fn in_group<T>(group: u32, fut: impl Future<Output = T>) -> T {
    let mut fut = Box::pin(fut);
    std::future::poll_fn(move |cx| {
        let prev = current_group();
        set_group(group);
        let r = fut.as_mut().poll(cx);
        set_group(prev);
        r
    })
    .await
}

/// Resolves at a moment when no other task of the run is runnable (all of them are
/// blocked on I/O, channels or timers). This is the simulator's quiescence point.
pub async fn until_idle() {
    let released = std::rc::Rc::new(Cell::new(false));
    let mut registered = false;
    std::future::poll_fn(move |cx| {
        if released.get() {
            return Poll::Ready(());
        }
        // (re-)register: the task may be polled for other reasons (e.g. a stale I/O waker)
        if !registered {
            registered = true;
            IDLE_WAITERS.with(|w| w.borrow_mut().push((cx.waker().clone(), released.clone())));
        }
        Poll::Pending
    })
    .await
}
