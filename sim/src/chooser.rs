//! The choice stream: the single source of every decision in a simulated run.
//!
//! One u64 seed initialises a xoshiro256** generator. Every decision
//! (configuration, workload, scheduler pick, chunk size, fault) is one
//! `choice(n)` call whose value is recorded. In replay mode the recorded values
//! are fed back (modulo `n`, zeros once exhausted), which is what makes
//! choice-sequence minimisation possible.
//!
//! Nothing in here reads a clock or draws from the generator for logging.

use std::cell::RefCell;

#[derive(Clone)]
pub struct Xoshiro {
    s: [u64; 4],
}

fn splitmix(x: &mut u64) -> u64 {
    *x = x.wrapping_add(0x9E37_79B9_7F4A_7C15);
    let mut z = *x;
    z = (z ^ (z >> 30)).wrapping_mul(0xBF58_476D_1CE4_E5B9);
    z = (z ^ (z >> 27)).wrapping_mul(0x94D0_49BB_1331_11EB);
    z ^ (z >> 31)
}

impl Xoshiro {
    pub fn new(seed: u64) -> Self {
        let mut x = seed;
        let s = [
            splitmix(&mut x),
            splitmix(&mut x),
            splitmix(&mut x),
            splitmix(&mut x),
        ];
        Xoshiro { s }
    }
    pub fn next(&mut self) -> u64 {
        let result = self.s[1].wrapping_mul(5).rotate_left(7).wrapping_mul(9);
        let t = self.s[1] << 17;
        self.s[2] ^= self.s[0];
        self.s[3] ^= self.s[1];
        self.s[1] ^= self.s[2];
        self.s[0] ^= self.s[3];
        self.s[2] ^= t;
        self.s[3] = self.s[3].rotate_left(45);
        result
    }
}

/// Derive a run seed from (base seed, property tag, run index)
pub fn derive_seed(base: u64, tag: &str, index: u64) -> u64 {
    let mut h = base ^ 0xA076_1D64_78BD_642F;
    for b in tag.bytes() {
        h = (h ^ b as u64).wrapping_mul(0x1000_0000_01B3);
    }
    h ^= index.wrapping_mul(0xE703_7ED1_A0B4_28DB);
    let mut x = h;
    splitmix(&mut x)
}

enum Mode {
    Rng(Xoshiro),
    Replay { values: Vec<u32>, pos: usize },
}

pub struct Chooser {
    mode: Mode,
    pub log: Vec<u32>,
    /// entropy generator for H3 (separate stream so that entropy draws do not
    /// shift the choice stream)
    entropy: Xoshiro,
}

impl Chooser {
    pub fn from_seed(seed: u64) -> Self {
        Chooser {
            mode: Mode::Rng(Xoshiro::new(seed)),
            log: Vec::with_capacity(1024),
            entropy: Xoshiro::new(seed ^ 0x5EED_E47B_0B1E_55ED),
        }
    }
    pub fn from_replay(seed: u64, values: Vec<u32>) -> Self {
        Chooser {
            mode: Mode::Replay { values, pos: 0 },
            log: Vec::with_capacity(1024),
            entropy: Xoshiro::new(seed ^ 0x5EED_E47B_0B1E_55ED),
        }
    }
    fn choice(&mut self, n: u32) -> u32 {
        debug_assert!(n >= 1);
        if n <= 1 {
            return 0;
        }
        let v = match &mut self.mode {
            Mode::Rng(r) => (r.next() >> 32) as u32 % n,
            Mode::Replay { values, pos } => {
                let v = values.get(*pos).copied().unwrap_or(0) % n;
                *pos += 1;
                v
            }
        };
        self.log.push(v);
        v
    }
}

thread_local! {
    static CHOOSER: RefCell<Option<Chooser>> = const { RefCell::new(None) };
}

pub fn install(c: Chooser) {
    CHOOSER.with(|x| *x.borrow_mut() = Some(c));
}

pub fn take() -> Option<Chooser> {
    CHOOSER.with(|x| x.borrow_mut().take())
}

/// A value in `0..n` (0 when `n <= 1`, and then nothing is drawn or logged)
pub fn choice(n: u32) -> u32 {
    CHOOSER.with(|x| {
        x.borrow_mut()
            .as_mut()
            .expect("chooser not installed")
            .choice(n)
    })
}

/// true with probability num/den; value 0 of the stream means "false"
pub fn chance(num: u32, den: u32) -> bool {
    let v = choice(den);
    v >= den - num.min(den)
}

pub fn pick<T: Copy>(items: &[T]) -> T {
    items[choice(items.len() as u32) as usize]
}

/// Uniform in lo..=hi
pub fn range(lo: u32, hi: u32) -> u32 {
    lo + choice(hi - lo + 1)
}

pub fn entropy(buf: &mut [u8]) {
    CHOOSER.with(|x| {
        let mut g = x.borrow_mut();
        let c = g.as_mut().expect("chooser not installed");
        for chunk in buf.chunks_mut(8) {
            let v = c.entropy.next().to_le_bytes();
            chunk.copy_from_slice(&v[..chunk.len()]);
        }
    })
}

pub fn choices_drawn() -> usize {
    CHOOSER.with(|x| x.borrow().as_ref().map(|c| c.log.len()).unwrap_or(0))
}
