mod chooser;
mod msgs;
mod net;
mod peer;
mod props;
mod refcodec;
mod runner;
mod scen;
mod sim;
mod wire;
mod world;

// A counting allocator: the codec scenarios bound the memory a decoder may take for an input
use std::alloc::{GlobalAlloc, Layout, System};
use std::sync::atomic::{AtomicUsize, Ordering as AtomicOrdering};

struct Counting;
static ALLOC_NOW: AtomicUsize = AtomicUsize::new(0);
static ALLOC_PEAK: AtomicUsize = AtomicUsize::new(0);

unsafe impl GlobalAlloc for Counting {
    unsafe fn alloc(&self, l: Layout) -> *mut u8 {
        let p = System.alloc(l);
        if !p.is_null() {
            let now = ALLOC_NOW.fetch_add(l.size(), AtomicOrdering::Relaxed) + l.size();
            ALLOC_PEAK.fetch_max(now, AtomicOrdering::Relaxed);
        }
        p
    }
    unsafe fn dealloc(&self, p: *mut u8, l: Layout) {
        System.dealloc(p, l);
        ALLOC_NOW.fetch_sub(l.size(), AtomicOrdering::Relaxed);
    }
    unsafe fn realloc(&self, p: *mut u8, l: Layout, new_size: usize) -> *mut u8 {
        let q = System.realloc(p, l, new_size);
        if !q.is_null() {
            if new_size >= l.size() {
                let now = ALLOC_NOW.fetch_add(new_size - l.size(), AtomicOrdering::Relaxed) + (new_size - l.size());
                ALLOC_PEAK.fetch_max(now, AtomicOrdering::Relaxed);
            } else {
                ALLOC_NOW.fetch_sub(l.size() - new_size, AtomicOrdering::Relaxed);
            }
        }
        q
    }
}

#[global_allocator]
static GLOBAL: Counting = Counting;

pub fn alloc_now() -> usize {
    ALLOC_NOW.load(AtomicOrdering::Relaxed)
}
pub fn alloc_peak() -> usize {
    ALLOC_PEAK.load(AtomicOrdering::Relaxed)
}
pub fn alloc_reset_peak() {
    ALLOC_PEAK.store(ALLOC_NOW.load(AtomicOrdering::Relaxed), AtomicOrdering::Relaxed);
}

fn usage() -> ! {
    eprintln!(
        "usage: simcheck <Cxx> <quick|thorough> [--runs N] [--workers N] [--max-wall S]\n       simcheck --replay <file> [--quiet]\n       simcheck one <Cxx> <index>\n       simcheck hashes <Cxx> <from> <to>"
    );
    std::process::exit(2)
}

fn base_seed() -> u64 {
    std::env::var("VERIF_SEED").ok().and_then(|s| s.parse().ok()).unwrap_or(1)
}

fn main() {
    let args: Vec<String> = std::env::args().collect();
    let props = props::all();
    if args.len() < 2 {
        usage();
    }
    match args[1].as_str() {
        "--worker" => {
            // --worker <prop> <tier> <base_seed> <start> <stride> <total> <deadline_s>
            let prop = props.iter().find(|p| p.id == args[2]).unwrap_or_else(|| usage());
            let tier = args[3].clone();
            let base: u64 = args[4].parse().unwrap();
            let start: u64 = args[5].parse().unwrap();
            let stride: u64 = args[6].parse().unwrap();
            let total: u64 = args[7].parse().unwrap();
            let deadline: u64 = args[8].parse().unwrap();
            // run on a thread with tokio's default worker stack size, so that recursion
            // depth limits are the production ones
            let h = std::thread::Builder::new()
                .stack_size(2 << 20)
                .spawn(move || {
                    let props = props::all();
                    let prop = props.iter().find(|p| p.id == args[2]).unwrap();
                    runner::worker_main(prop, &tier, base, start, stride, total, deadline);
                })
                .unwrap();
            let _ = prop;
            if h.join().is_err() {
                std::process::exit(98);
            }
        }
        "--replay" => {
            let path = args.get(2).unwrap_or_else(|| usage()).clone();
            let quiet = args.iter().any(|a| a == "--quiet");
            let h = std::thread::Builder::new()
                .stack_size(2 << 20)
                .spawn(move || runner::replay_main(&props::all(), &path, quiet))
                .unwrap();
            std::process::exit(h.join().unwrap_or(2));
        }
        "one" => {
            let prop = props.iter().find(|p| Some(&p.id.to_string()) == args.get(2)).unwrap_or_else(|| usage());
            let idx: u64 = args.get(3).and_then(|s| s.parse().ok()).unwrap_or_else(|| usage());
            let v = prop.variant_for(idx);
            let (si, case) = prop.seed_and_case(idx);
            let seed = chooser::derive_seed(base_seed(), prop.id, si);
            sim::set_case(case);
            let make = v.make;
            let r = sim::run(seed, sim::Source::Seed, true, sim::Limits { max_steps: v.max_steps, ..Default::default() }, move || make());
            for l in &r.tail {
                println!("{}", l);
            }
            println!("variant: {} seed: {} cfg: {}", v.name, seed, r.config);
            println!("steps={} vms={} hash={:016x} probes={:?} faults={:?}", r.steps, r.vms, r.ev_hash, r.probes, r.faults);
            println!("{:?}", r.violation);
        }
        "hashes" => {
            // print "<index> <event-log hash> <violation kind>" per run: input to the determinism check
            let prop = props.iter().find(|p| Some(&p.id.to_string()) == args.get(2)).unwrap_or_else(|| usage());
            let from: u64 = args.get(3).and_then(|s| s.parse().ok()).unwrap_or(0);
            let to: u64 = args.get(4).and_then(|s| s.parse().ok()).unwrap_or(100);
            for idx in from..to {
                let v = prop.variant_for(idx);
                let (si, case) = prop.seed_and_case(idx);
                let seed = chooser::derive_seed(base_seed(), prop.id, si);
                sim::set_case(case);
                let make = v.make;
                let trace_at: Option<u64> = std::env::var("VERIF_TRACE_AT").ok().and_then(|s| s.parse().ok());
                let r = sim::run(seed, sim::Source::Seed, trace_at == Some(idx), sim::Limits { max_steps: v.max_steps, ..Default::default() }, move || make());
                if trace_at == Some(idx) {
                    for l in &r.tail {
                        eprintln!("{}", l);
                    }
                }
                println!(
                    "{} {:016x} {:016x} {} {} {}",
                    idx,
                    r.ev_hash,
                    r.sched_hash,
                    r.steps,
                    r.vms,
                    r.violation.map(|v| format!("{}/{}", v.kind, v.sig)).unwrap_or_else(|| "-".into())
                );
            }
        }
        id => {
            let prop = props.iter().find(|p| p.id == id).unwrap_or_else(|| usage());
            let tier = args.get(2).map(|s| s.as_str()).unwrap_or("quick").to_string();
            let tier = std::env::var("VERIF_TIER").ok().filter(|t| t == "quick" || t == "thorough").unwrap_or(tier);
            let mut runs = None;
            let mut workers = std::thread::available_parallelism().map(|n| n.get()).unwrap_or(4);
            let mut max_wall = if tier == "thorough" { 1500 } else { 240 };
            let mut i = 3;
            while i < args.len() {
                match args[i].as_str() {
                    "--runs" => {
                        runs = args.get(i + 1).and_then(|s| s.parse().ok());
                        i += 1;
                    }
                    "--workers" => {
                        workers = args.get(i + 1).and_then(|s| s.parse().ok()).unwrap_or(workers);
                        i += 1;
                    }
                    "--max-wall" => {
                        max_wall = args.get(i + 1).and_then(|s| s.parse().ok()).unwrap_or(max_wall);
                        i += 1;
                    }
                    _ => {}
                }
                i += 1;
            }
            std::process::exit(runner::orchestrate(prop, &tier, base_seed(), runs, workers, max_wall));
        }
    }
}
