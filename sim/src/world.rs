//! Helpers that assemble a simulated deployment: a real client endpoint and a real
//! listener endpoint joined by a `SimStream`.

use std::cell::RefCell;
use std::future::Future;
use std::pin::Pin;
use std::rc::Rc;

use fe2o3_amqp::acceptor::{ConnectionAcceptor, ListenerConnectionHandle, ListenerSessionHandle, SessionAcceptor};
use fe2o3_amqp::connection::ConnectionHandle;
use fe2o3_amqp::session::SessionHandle;
use fe2o3_amqp::{Connection, Session};

use crate::chooser::{choice, pick};
use crate::net::{NetCfg, NetHandle, SimStream};
use crate::sim;

pub type LocalFut = Pin<Box<dyn Future<Output = ()>>>;

#[derive(Clone, Debug)]
pub struct EndpointCfg {
    pub max_frame_size: u32,
    pub channel_max: u16,
    pub idle_time_out: Option<u32>,
    /// connection-level buffer size (session -> connection channel)
    pub conn_buffer: usize,
    /// session-level buffer size
    pub sess_buffer: usize,
    pub incoming_window: u32,
    pub outgoing_window: u32,
}

pub const FRAME_SIZES: [u32; 7] = [512, 513, 520, 600, 1024, 4096, 65536];
pub const WINDOWS: [u32; 7] = [2048, 1, 2, 3, 5, 64, 5000];

impl EndpointCfg {
    pub fn default_cfg() -> Self {
        EndpointCfg {
            max_frame_size: 65536,
            channel_max: 255,
            idle_time_out: None,
            conn_buffer: 2048,
            sess_buffer: 2048,
            incoming_window: 2048,
            outgoing_window: 2048,
        }
    }
    /// Buffer sizes: most runs are roomy; 5/16 make exactly one of the two engine
    /// channels of the endpoint tiny while the other is large enough never to fill
    /// (internal sends then really are pending, but the other engine can always make
    /// progress); 1/16 combine a tiny session buffer with a connection buffer that
    /// the workload can fill, which on the unchanged tree can run into the circular
    /// wait of DESIGN section 5 (S14).
    pub fn draw(min_buffer: usize) -> Self {
        const TINY: [usize; 4] = [8, 3, 2, 1];
        let (b1, b2) = match choice(16) {
            0..=9 => (2048, pick(&[2048usize, 2048, 64])),
            10..=12 => (pick(&TINY), 2048),
            13 | 14 => (2048, pick(&TINY)),
            _ => (pick(&[64usize, 8, 3, 2, 1]), pick(&TINY)),
        };
        let b1 = b1.max(min_buffer);
        let b2 = b2.max(min_buffer);
        EndpointCfg {
            max_frame_size: pick(&FRAME_SIZES),
            channel_max: 255,
            idle_time_out: None,
            conn_buffer: b1,
            sess_buffer: b2,
            incoming_window: pick(&WINDOWS),
            outgoing_window: pick(&WINDOWS),
        }
    }
    /// The configuration class in which the engines of one endpoint can wait on each
    /// other: the session's incoming channel is tiny and the connection's outgoing
    /// channel is small enough for the workload to fill it
    pub fn circular_wait_class(&self) -> bool {
        self.sess_buffer <= 8 && self.conn_buffer <= 64
    }
    pub fn describe(&self) -> String {
        format!(
            "mfs={} chmax={} idle={:?} cbuf={} sbuf={} inwin={} outwin={}",
            self.max_frame_size,
            self.channel_max,
            self.idle_time_out,
            self.conn_buffer,
            self.sess_buffer,
            self.incoming_window,
            self.outgoing_window
        )
    }
}

pub fn listener_acceptor(cfg: &EndpointCfg) -> ConnectionAcceptor<(), ()> {
    let mut b = ConnectionAcceptor::builder()
        .container_id("sim-listener")
        .max_frame_size(cfg.max_frame_size)
        .channel_max(cfg.channel_max)
        .buffer_size(cfg.conn_buffer);
    if let Some(t) = cfg.idle_time_out {
        b = b.idle_time_out(t);
    }
    b.build()
}

pub async fn client_open(cfg: &EndpointCfg, stream: SimStream) -> Result<ConnectionHandle<()>, fe2o3_amqp::connection::OpenError> {
    let mut b = Connection::builder()
        .container_id("sim-client")
        .max_frame_size(cfg.max_frame_size)
        .channel_max(cfg.channel_max)
        .buffer_size(cfg.conn_buffer);
    if let Some(t) = cfg.idle_time_out {
        b = b.idle_time_out(t);
    }
    b.open_with_stream(stream).await
}

pub async fn client_begin(cfg: &EndpointCfg, conn: &mut ConnectionHandle<()>) -> Result<SessionHandle<()>, fe2o3_amqp::session::BeginError> {
    Session::builder()
        .incoming_window(cfg.incoming_window)
        .outgoing_window(cfg.outgoing_window)
        .buffer_size(cfg.sess_buffer)
        .begin(conn)
        .await
}

pub fn session_acceptor(cfg: &EndpointCfg) -> SessionAcceptor {
    SessionAcceptor::builder()
        .incoming_window(cfg.incoming_window)
        .outgoing_window(cfg.outgoing_window)
        .buffer_size(cfg.sess_buffer)
        .build()
}

/// A slot through which a spawned task hands a value to another task
pub struct Slot<T> {
    inner: Rc<RefCell<(Option<T>, Option<std::task::Waker>)>>,
}

impl<T> Clone for Slot<T> {
    fn clone(&self) -> Self {
        Slot { inner: self.inner.clone() }
    }
}

impl<T> Slot<T> {
    pub fn new() -> Self {
        Slot {
            inner: Rc::new(RefCell::new((None, None))),
        }
    }
    pub fn put(&self, v: T) {
        let mut g = self.inner.borrow_mut();
        g.0 = Some(v);
        if let Some(w) = g.1.take() {
            w.wake();
        }
    }
    pub async fn take(&self) -> T {
        std::future::poll_fn(|cx| {
            let mut g = self.inner.borrow_mut();
            match g.0.take() {
                Some(v) => std::task::Poll::Ready(v),
                None => {
                    g.1 = Some(cx.waker().clone());
                    std::task::Poll::Pending
                }
            }
        })
        .await
    }
    pub fn try_take(&self) -> Option<T> {
        self.inner.borrow_mut().0.take()
    }
}

pub struct Pair {
    pub client: ConnectionHandle<()>,
    pub listener: ListenerConnectionHandle,
    pub net: NetHandle,
    pub mon: crate::wire::MonitorRef,
}

/// Open a client connection and accept it on a listener, concurrently.
/// Engine tasks of the client get group 1, those of the listener group 2.
pub async fn open_pair(
    ccfg: &EndpointCfg,
    lcfg: &EndpointCfg,
    net_ab: NetCfg,
    net_ba: NetCfg,
    models: crate::wire::Models,
) -> Option<Pair> {
    open_pair_grouped(ccfg, lcfg, net_ab, net_ba, models, ["client", "listener"], [1, 2]).await
}

/// As `open_pair`, with the names and task groups of the two endpoints chosen by the caller
/// (a second pair in the same run)
pub async fn open_pair_grouped(
    ccfg: &EndpointCfg,
    lcfg: &EndpointCfg,
    net_ab: NetCfg,
    net_ba: NetCfg,
    models: crate::wire::Models,
    names: [&'static str; 2],
    groups: [u32; 2],
) -> Option<Pair> {
    let (cs, ls, net) = SimStream::pair(names[0], names[1], net_ab, net_ba);
    let mon = crate::wire::install(&net, names, [models, models]);
    let slot: Slot<Result<ListenerConnectionHandle, fe2o3_amqp::connection::OpenError>> = Slot::new();
    let s2 = slot.clone();
    let lcfg2 = lcfg.clone();
    sim::spawn(
        "listener-accept",
        sim::in_group(groups[1], async move {
            let acceptor = listener_acceptor(&lcfg2);
            let r = acceptor.accept(ls).await;
            s2.put(r);
        }),
    );
    let client = sim::op("client open", sim::in_group(groups[0], client_open(ccfg, cs))).await?;
    let listener = sim::op("listener accept", slot.take()).await?;
    match (client, listener) {
        (Ok(client), Ok(listener)) => Some(Pair { client, listener, net, mon }),
        (c, l) => {
            sim::violation(
                "open-failed",
                format!(
                    "fault-free open failed: client={:?} listener={:?}",
                    c.as_ref().map(|_| ()).map_err(|e| format!("{:?}", e)),
                    l.as_ref().map(|_| ()).map_err(|e| format!("{:?}", e))
                ),
            );
            None
        }
    }
}

/// Begin a client session and accept it on the listener, concurrently
pub async fn begin_pair(
    ccfg: &EndpointCfg,
    lcfg: &EndpointCfg,
    pair: &mut Pair,
) -> Option<(SessionHandle<()>, ListenerSessionHandle)> {
    begin_pair_grouped(ccfg, lcfg, pair, [1, 2]).await
}

pub async fn begin_pair_grouped(
    ccfg: &EndpointCfg,
    lcfg: &EndpointCfg,
    pair: &mut Pair,
    groups: [u32; 2],
) -> Option<(SessionHandle<()>, ListenerSessionHandle)> {
    let acc = session_acceptor(lcfg);
    let c = sim::in_group(groups[0], client_begin(ccfg, &mut pair.client));
    let l = sim::in_group(groups[1], async { acc.accept(&mut pair.listener).await });
    // join both without spawning: poll them alternately inside this task
    let (c, l) = sim::op("session begin/accept", join2(c, l)).await?;
    match (c, l) {
        (Ok(c), Ok(l)) => Some((c, l)),
        (c, l) => {
            sim::violation(
                "begin-failed",
                format!(
                    "fault-free begin failed: client={:?} listener={:?}",
                    c.map(|_| ()).map_err(|e| format!("{:?}", e)),
                    l.map(|_| ()).map_err(|e| format!("{:?}", e))
                ),
            );
            None
        }
    }
}

pub async fn join2<A, B>(a: impl Future<Output = A>, b: impl Future<Output = B>) -> (A, B) {
    let mut a = Box::pin(a);
    let mut b = Box::pin(b);
    let mut ra = None;
    let mut rb = None;
    std::future::poll_fn(move |cx| {
        if ra.is_none() {
            if let std::task::Poll::Ready(v) = a.as_mut().poll(cx) {
                ra = Some(v);
            }
        }
        if rb.is_none() {
            if let std::task::Poll::Ready(v) = b.as_mut().poll(cx) {
                rb = Some(v);
            }
        }
        if ra.is_some() && rb.is_some() {
            std::task::Poll::Ready((ra.take().unwrap(), rb.take().unwrap()))
        } else {
            std::task::Poll::Pending
        }
    })
    .await
}

/// Draw both directions' network configuration; returns a description too
pub fn draw_net(allow_faults: bool) -> (NetCfg, NetCfg, String) {
    if choice(4) == 0 {
        let a = NetCfg::plain();
        (a.clone(), a, "net=plain".into())
    } else {
        let mut a = NetCfg::draw();
        let mut b = NetCfg::draw();
        if !allow_faults {
            a.stall_den = 0;
            b.stall_den = 0;
        }
        let d = format!("{} {}", a.describe(), b.describe());
        (a, b, d)
    }
}

/// Quiescence of a pair scenario: no task runnable, nothing in flight, nothing unread
pub async fn quiesce_pair(net: &NetHandle) -> bool {
    let deadline = tokio::time::Instant::now() + sim::OP_DEADLINE;
    while tokio::time::Instant::now() < deadline {
        sim::until_idle().await;
        if net.idle() {
            return true;
        }
        tokio::time::sleep(std::time::Duration::from_millis(1)).await;
    }
    false
}

/// A network that fragments and reorders scheduling but never delays by more than a
/// few microseconds: for scenarios with short idle time-outs, where a slow network would
/// legitimately trip them
pub fn draw_fast_net() -> (NetCfg, NetCfg, String) {
    let mk = || {
        let mut n = NetCfg::draw();
        n.latency_us = if choice(2) == 1 { 50 } else { 0 };
        n.stall_den = 0;
        n.stall_ms = 0;
        n.capacity = n.capacity.max(4096);
        if n.chunk_mode == 1 || n.chunk_mode == 2 {
            n.chunk_mode = 3;
        }
        n
    };
    if choice(4) == 0 {
        let a = NetCfg::plain();
        (a.clone(), a, "net=plain".into())
    } else {
        let a = mk();
        let b = mk();
        let d = format!("{} {}", a.describe(), b.describe());
        (a, b, d)
    }
}
