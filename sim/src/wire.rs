//! The wire monitor: an independent frame splitter over the network tap plus small
//! executable reference models of what an endpoint may write.
//!
//! Everything here is derived from the bytes each endpoint wrote, using
//! `refcodec` only (never the crate's own decoders).

use std::collections::BTreeMap;

use crate::net::{NetHandle, PipeRef};
use crate::refcodec::{self, V};
use crate::sim;

pub const OPEN: u64 = 0x10;
pub const BEGIN: u64 = 0x11;
pub const ATTACH: u64 = 0x12;
pub const FLOW: u64 = 0x13;
pub const TRANSFER: u64 = 0x14;
pub const DISPOSITION: u64 = 0x15;
pub const DETACH: u64 = 0x16;
pub const END: u64 = 0x17;
pub const CLOSE: u64 = 0x18;

pub fn perf_name(code: u64) -> &'static str {
    match code {
        OPEN => "open",
        BEGIN => "begin",
        ATTACH => "attach",
        FLOW => "flow",
        TRANSFER => "transfer",
        DISPOSITION => "disposition",
        DETACH => "detach",
        END => "end",
        CLOSE => "close",
        0x40 => "sasl-mechanisms",
        0x41 => "sasl-init",
        0x42 => "sasl-challenge",
        0x43 => "sasl-response",
        0x44 => "sasl-outcome",
        _ => "?",
    }
}

#[derive(Clone, Debug)]
pub enum Item {
    Header([u8; 8]),
    Frame(WFrame),
}

#[derive(Clone, Debug)]
pub struct WFrame {
    pub size: u32,
    pub doff: u8,
    pub ftype: u8,
    pub channel: u16,
    /// None for an empty (heartbeat) frame
    pub perf: Option<V>,
    pub code: u64,
    pub payload: Vec<u8>,
    /// why the body could not be decoded, if it could not
    pub undecodable: Option<String>,
}

#[derive(Clone, Debug)]
pub struct Stamped {
    /// 0 = written by A (client side of the SimStream pair), 1 = written by B
    pub dir: usize,
    pub seq: u64,
    pub vus: u64,
    /// byte offset of the first byte of the item in its direction's stream
    pub offset: usize,
    pub len: usize,
    pub item: Item,
}

/// Splits one direction's byte stream into protocol headers and frames
pub struct Splitter {
    pipe: PipeRef,
    consumed: usize,
    chunk_idx: usize,
    pub malformed: Option<String>,
}

impl Splitter {
    pub fn new(pipe: PipeRef) -> Self {
        Splitter {
            pipe,
            consumed: 0,
            chunk_idx: 0,
            malformed: None,
        }
    }

    /// Returns the complete items written since the last call
    pub fn drain(&mut self, dir: usize) -> Vec<Stamped> {
        let p = self.pipe.lock().unwrap();
        let tap = &p.tap;
        let mut out = Vec::new();
        if self.malformed.is_some() {
            return out;
        }
        loop {
            let rest = &tap[self.consumed..];
            if rest.len() < 8 {
                break;
            }
            let (len, item) = if &rest[..4] == b"AMQP" {
                (8usize, Item::Header(rest[..8].try_into().unwrap()))
            } else {
                let size = u32::from_be_bytes(rest[..4].try_into().unwrap());
                if size < 8 {
                    self.malformed = Some(format!("frame size {} < 8 at offset {}", size, self.consumed));
                    break;
                }
                if rest.len() < size as usize {
                    break;
                }
                let fr = &rest[..size as usize];
                let doff = fr[4];
                let ftype = fr[5];
                let channel = u16::from_be_bytes([fr[6], fr[7]]);
                let body_start = (doff as usize) * 4;
                if doff < 2 || body_start > fr.len() {
                    self.malformed = Some(format!("doff {} invalid for frame of size {} at offset {}", doff, size, self.consumed));
                    break;
                }
                let body = &fr[body_start..];
                let mut frame = WFrame {
                    size,
                    doff,
                    ftype,
                    channel,
                    perf: None,
                    code: 0,
                    payload: Vec::new(),
                    undecodable: None,
                };
                if !body.is_empty() {
                    match refcodec::decode(body) {
                        Ok((v, used)) => {
                            frame.code = v.descriptor_code().unwrap_or(0);
                            frame.payload = body[used..].to_vec();
                            frame.perf = Some(v);
                        }
                        Err(e) => frame.undecodable = Some(format!("{:?}", e)),
                    }
                }
                (size as usize, Item::Frame(frame))
            };
            // stamp with the chunk that completed the item
            let end = self.consumed + len;
            while self.chunk_idx < p.tap_chunks.len() {
                let c = &p.tap_chunks[self.chunk_idx];
                if c.start + c.len >= end {
                    break;
                }
                self.chunk_idx += 1;
            }
            let (seq, vus) = p
                .tap_chunks
                .get(self.chunk_idx)
                .map(|c| (c.seq, c.vus))
                .unwrap_or((u64::MAX, 0));
            out.push(Stamped {
                dir,
                seq,
                vus,
                offset: self.consumed,
                len,
                item,
            });
            self.consumed = end;
        }
        out
    }

    pub fn pending_bytes(&self) -> usize {
        self.pipe.lock().unwrap().tap.len() - self.consumed
    }
}

pub fn describe_frame(f: &WFrame) -> String {
    match &f.perf {
        None if f.undecodable.is_some() => format!("ch{} UNDECODABLE({}) size={}", f.channel, f.undecodable.as_ref().unwrap(), f.size),
        None => format!("ch{} (empty)", f.channel),
        Some(v) => {
            let name = perf_name(f.code);
            let fields = v.fields();
            let mut s = format!("ch{} {}{:?}", f.channel, name, fields);
            if s.len() > 300 {
                s.truncate(300);
                s.push_str("..");
            }
            if f.code == TRANSFER {
                s.push_str(&format!(" payload={}B", f.payload.len()));
            }
            s
        }
    }
}

// ---------------------------------------------------------------------------------------
// Reference models

#[derive(Clone, Copy, Debug, Default)]
pub struct Models {
    pub conn: bool,
    pub size: bool,
    pub sess: bool,
    pub link: bool,
    pub delivery: bool,
    pub window: bool,
    pub credit: bool,
    pub decodable: bool,
}

impl Models {
    pub fn all() -> Self {
        Models {
            conn: true,
            size: true,
            sess: true,
            link: true,
            delivery: true,
            window: true,
            credit: true,
            decodable: true,
        }
    }
    pub fn none() -> Self {
        Models::default()
    }
}

#[derive(Clone, Debug, Default)]
pub struct Delivery {
    pub channel: u16,
    pub handle: u32,
    pub delivery_id: u32,
    pub tag: Vec<u8>,
    pub settled: bool,
    pub payload: Vec<u8>,
    pub frames: u32,
    pub aborted: bool,
    pub complete: bool,
    pub message_format: Option<u32>,
    pub first_seq: u64,
    pub last_seq: u64,
    /// zero-based position among the transfer frames the endpoint sent on the channel
    pub first_transfer_index: u64,
}

#[derive(Clone, Debug)]
pub struct WindowStmt {
    /// global seq at which the statement was written
    pub seq: u64,
    /// None = next-incoming-id unset
    pub nii: Option<u32>,
    pub window: u32,
    pub next_outgoing_id: u32,
    /// number of transfer frames the stating endpoint had written on the channel
    pub transfers_before: u64,
}

#[derive(Clone, Debug)]
pub struct CreditStmt {
    pub seq: u64,
    pub delivery_count: Option<u32>,
    pub link_credit: u32,
    pub drain: bool,
    pub echo: bool,
}

#[derive(Clone, Debug, Default)]
pub struct LinkView {
    pub name: String,
    pub handle: u32,
    /// true if the writer of this attach is the sender
    pub is_sender: bool,
    pub initial_delivery_count: Option<u32>,
    pub attached: bool,
    pub detached: bool,
    pub detach_closed: bool,
    pub detach_error: Option<String>,
    pub attach_seq: u64,
    pub detach_seq: u64,
    /// deliveries started on this link (as sender)
    pub deliveries_started: u32,
    /// flows written for this link by this endpoint
    pub flows: Vec<CreditStmt>,
    pub snd_settle_mode: u8,
    pub rcv_settle_mode: u8,
    pub unsettled: Option<V>,
    pub target_null: bool,
    pub source_null: bool,
}

#[derive(Clone, Debug, Default)]
pub struct SessView {
    pub channel: u16,
    pub remote_channel: Option<u16>,
    pub begun: bool,
    pub ended: bool,
    pub end_error: Option<String>,
    pub begin_seq: u64,
    pub end_seq: u64,
    pub initial_outgoing_id: u32,
    pub transfers_sent: u64,
    /// window statements made by this endpoint (begin + flows)
    pub stmts: Vec<WindowStmt>,
    pub links: Vec<LinkView>,
    pub generation: u32,
    pub last_delivery_id: Option<u32>,
    pub open_delivery: BTreeMap<u32, usize>, // handle -> index in deliveries
    pub handle_max: Option<u32>,
}

impl SessView {
    pub fn link_by_handle(&self, handle: u32) -> Option<&LinkView> {
        self.links.iter().rev().find(|l| l.handle == handle && l.attached && !l.detached)
    }
    fn link_by_handle_mut(&mut self, handle: u32) -> Option<&mut LinkView> {
        self.links.iter_mut().rev().find(|l| l.handle == handle && l.attached && !l.detached)
    }
    pub fn link_by_name(&self, name: &str) -> Option<&LinkView> {
        self.links.iter().rev().find(|l| l.name == name)
    }
}

#[derive(Clone, Debug, Default)]
pub struct EndView {
    pub headers: Vec<[u8; 8]>,
    pub open: Option<V>,
    pub open_seq: u64,
    pub max_frame_size: Option<u32>,
    pub channel_max: Option<u16>,
    pub idle_time_out: Option<u32>,
    pub close: Option<V>,
    pub close_seq: u64,
    pub close_vus: u64,
    pub frames_after_close: u32,
    /// all sessions ever begun by this endpoint, in order
    pub sessions: Vec<SessView>,
    pub frames: u64,
    pub empty_frames: u64,
    pub deliveries: Vec<Delivery>,
    pub frame_times: Vec<u64>,
    pub sasl_frames: u64,
    pub last_frame_seq: u64,
}

impl EndView {
    pub fn sess(&self, channel: u16) -> Option<&SessView> {
        self.sessions.iter().rev().find(|s| s.channel == channel && s.begun && !s.ended)
    }
    fn sess_mut(&mut self, channel: u16) -> Option<&mut SessView> {
        self.sessions.iter_mut().rev().find(|s| s.channel == channel && s.begun && !s.ended)
    }
    pub fn last_sess(&self, channel: u16) -> Option<&SessView> {
        self.sessions.iter().rev().find(|s| s.channel == channel)
    }
    pub fn close_error(&self) -> Option<String> {
        self.close.as_ref().and_then(|c| error_condition(c.field(0)))
    }
}

pub fn error_condition(v: &V) -> Option<String> {
    if v.is_null() {
        return None;
    }
    v.field(0).as_str().map(|s| s.to_string())
}

pub fn serial_lt(a: u32, b: u32) -> bool {
    // RFC 1982
    (a != b) && (b.wrapping_sub(a) < 0x8000_0000)
}

pub struct Monitor {
    pub names: [&'static str; 2],
    split: [Splitter; 2],
    pub ends: [EndView; 2],
    pub models: [Models; 2],
    pub log: Vec<Stamped>,
    /// violations are reported under this prefix through sim::violation
    pub keep_log: bool,
    /// when set, window/credit statements with seq < floor are no longer usable by
    /// the other side (the scenario proved they were superseded and processed)
    pub window_floor: [u64; 2],
    pub credit_floor: [u64; 2],
    /// signature attached to every violation this monitor reports (known findings)
    pub sig_context: String,
}

impl Monitor {
    pub fn new(net: &NetHandle, names: [&'static str; 2], models: [Models; 2]) -> Self {
        Monitor {
            names,
            split: [Splitter::new(net.a2b.clone()), Splitter::new(net.b2a.clone())],
            ends: [EndView::default(), EndView::default()],
            models,
            log: Vec::new(),
            keep_log: true,
            window_floor: [0, 0],
            credit_floor: [0, 0],
            sig_context: String::new(),
        }
    }

    /// Process everything written since the last call, in global write order
    pub fn sync(&mut self) {
        let mut a = self.split[0].drain(0);
        let mut b = self.split[1].drain(1);
        for d in 0..2 {
            if let Some(m) = self.split[d].malformed.take() {
                if self.models[d].decodable || self.models[d].size {
                    sim::violation("malformed-frame", format!("{} wrote a malformed frame: {}", self.names[d], m));
                }
                self.split[d].malformed = Some(m);
            }
        }
        let mut merged = Vec::with_capacity(a.len() + b.len());
        a.reverse();
        b.reverse();
        loop {
            match (a.last(), b.last()) {
                (Some(x), Some(y)) => {
                    if x.seq <= y.seq {
                        merged.push(a.pop().unwrap())
                    } else {
                        merged.push(b.pop().unwrap())
                    }
                }
                (Some(_), None) => merged.push(a.pop().unwrap()),
                (None, Some(_)) => merged.push(b.pop().unwrap()),
                (None, None) => break,
            }
        }
        for st in merged {
            self.on_item(&st);
            if self.keep_log {
                self.log.push(st);
            }
        }
    }

    fn viol(&self, d: usize, kind: &str, msg: String) {
        sim::violation_sig(kind, &self.sig_context, format!("{}: {}", self.names[d], msg));
    }

    fn on_item(&mut self, st: &Stamped) {
        let d = st.dir;
        let o = 1 - d;
        if sim::tracing() {
            match &st.item {
                Item::Header(h) => sim::trace_line(format!("WIRE {} -> header {:?}", self.names[d], h)),
                Item::Frame(f) => sim::trace_line(format!("WIRE {} -> [t={}us] {}", self.names[d], st.vus, describe_frame(f))),
            }
        }
        let m = self.models[d];
        match &st.item {
            Item::Header(h) => {
                if m.conn && self.ends[d].frames > 0 && self.ends[d].sasl_frames == 0 {
                    self.viol(d, "header-not-first", format!("protocol header {:?} after {} frames", h, self.ends[d].frames));
                }
                self.ends[d].headers.push(*h);
            }
            Item::Frame(f) => {
                if m.conn && self.ends[d].headers.is_empty() {
                    self.viol(d, "header-not-first", "frame written before the protocol header".into());
                }
                self.ends[d].frames += 1;
                self.ends[d].last_frame_seq = st.seq;
                self.ends[d].frame_times.push(st.vus);
                if f.ftype == 1 {
                    self.ends[d].sasl_frames += 1;
                    return;
                }
                // M-size
                if m.size {
                    let limit = self.ends[o].max_frame_size.unwrap_or(512).max(512);
                    // before the peer's open is on the wire the limit is 512
                    let limit = if self.ends[o].open.is_some() { limit } else { 512 };
                    if f.size > limit {
                        self.viol(
                            d,
                            "frame-too-large",
                            format!("frame of {} bytes exceeds the peer's max-frame-size {} ({})", f.size, limit, describe_frame(f)),
                        );
                    }
                }
                if m.conn && self.ends[d].close.is_some() {
                    self.ends[d].frames_after_close += 1;
                    self.viol(d, "frame-after-close", format!("wrote {} after its close", describe_frame(f)));
                }
                if let Some(u) = &f.undecodable {
                    if m.decodable {
                        self.viol(d, "undecodable-frame", format!("frame body does not decode: {}", u));
                    }
                    return;
                }
                let perf = match &f.perf {
                    None => {
                        self.ends[d].empty_frames += 1;
                        if m.conn && self.ends[d].open.is_none() {
                            self.viol(d, "frame-before-open", "empty frame before open".into());
                        }
                        return;
                    }
                    Some(p) => p.clone(),
                };
                if m.conn && f.code != OPEN && self.ends[d].open.is_none() {
                    self.viol(d, "frame-before-open", format!("{} before open", describe_frame(f)));
                }
                match f.code {
                    OPEN => {
                        if m.conn && self.ends[d].open.is_some() {
                            self.viol(d, "second-open", "second open frame".into());
                        }
                        let e = &mut self.ends[d];
                        e.max_frame_size = Some(perf.field(2).as_u32().unwrap_or(u32::MAX));
                        e.channel_max = Some(perf.field(3).as_u32().map(|x| x as u16).unwrap_or(u16::MAX));
                        e.idle_time_out = perf.field(4).as_u32();
                        e.open = Some(perf);
                        e.open_seq = st.seq;
                    }
                    CLOSE => {
                        if m.conn && self.ends[d].close.is_some() {
                            self.viol(d, "second-close", "second close frame".into());
                        }
                        let e = &mut self.ends[d];
                        e.close = Some(perf);
                        e.close_seq = st.seq;
                        e.close_vus = st.vus;
                    }
                    BEGIN => self.on_begin(d, st, f, &perf),
                    END => self.on_end(d, st, f, &perf),
                    ATTACH | FLOW | TRANSFER | DISPOSITION | DETACH => self.on_session_frame(d, st, f, &perf),
                    _ => {
                        if m.decodable {
                            self.viol(d, "unknown-performative", format!("descriptor {:#x}", f.code));
                        }
                    }
                }
            }
        }
    }

    fn on_begin(&mut self, d: usize, st: &Stamped, f: &WFrame, perf: &V) {
        let m = self.models[d];
        if m.sess && self.ends[d].sess(f.channel).is_some() {
            self.viol(d, "channel-in-use", format!("begin on channel {} which is still in use", f.channel));
        }
        let generation = self.ends[d].sessions.iter().filter(|s| s.channel == f.channel).count() as u32;
        let initial = perf.field(1).as_u32().unwrap_or(0);
        let mut s = SessView {
            channel: f.channel,
            remote_channel: perf.field(0).as_u32().map(|x| x as u16),
            begun: true,
            begin_seq: st.seq,
            initial_outgoing_id: initial,
            generation,
            handle_max: perf.field(4).as_u32(),
            ..Default::default()
        };
        s.stmts.push(WindowStmt {
            seq: st.seq,
            nii: None,
            window: perf.field(2).as_u32().unwrap_or(0),
            next_outgoing_id: initial,
            transfers_before: 0,
        });
        self.ends[d].sessions.push(s);
    }

    fn on_end(&mut self, d: usize, st: &Stamped, f: &WFrame, perf: &V) {
        let m = self.models[d];
        match self.ends[d].sess_mut(f.channel) {
            Some(s) => {
                s.ended = true;
                s.end_seq = st.seq;
                s.end_error = error_condition(perf.field(0));
            }
            None => {
                if m.sess {
                    self.viol(d, "end-without-begin", format!("end on channel {} with no session begun (or already ended)", f.channel));
                }
            }
        }
    }

    /// The peer's session that is paired with session `channel` of endpoint `d`
    pub fn peer_session(&self, d: usize, channel: u16) -> Option<&SessView> {
        let o = 1 - d;
        let mine = self.ends[d].last_sess(channel)?;
        // paired either through my remote-channel (I answered) or through theirs (they answered)
        if let Some(rc) = mine.remote_channel {
            return self.ends[o].sessions.iter().rev().find(|s| s.channel == rc && s.begin_seq < mine.begin_seq);
        }
        self.ends[o]
            .sessions
            .iter()
            .rev()
            .find(|s| s.remote_channel == Some(channel) && s.begin_seq > mine.begin_seq)
    }

    fn on_session_frame(&mut self, d: usize, st: &Stamped, f: &WFrame, perf: &V) {
        let m = self.models[d];
        if self.ends[d].sess(f.channel).is_none() {
            if m.sess {
                let was = self.ends[d].last_sess(f.channel).map(|s| s.ended).unwrap_or(false);
                self.viol(
                    d,
                    if was { "frame-after-end" } else { "frame-without-begin" },
                    format!("{} on a channel with no live session", describe_frame(f)),
                );
            }
            return;
        }
        match f.code {
            ATTACH => {
                let name = perf.field(0).as_str().unwrap_or("").to_string();
                let handle = perf.field(1).as_u32().unwrap_or(0);
                let is_sender = !perf.field(2).as_bool().unwrap_or(false);
                let s = self.ends[d].sess(f.channel).unwrap();
                if m.link {
                    if s.link_by_handle(handle).is_some() {
                        self.viol(d, "handle-in-use", format!("attach of {:?} on handle {} which is still attached", name, handle));
                    }
                    if s.links.iter().any(|l| l.name == name && l.attached && !l.detached && l.is_sender == is_sender) {
                        self.viol(d, "name-in-use", format!("link name {:?} attached twice on channel {}", name, f.channel));
                    }
                    if let Some(hm) = s.handle_max {
                        let _ = hm;
                    }
                }
                let lv = LinkView {
                    name,
                    handle,
                    is_sender,
                    initial_delivery_count: perf.field(9).as_u32(),
                    attached: true,
                    attach_seq: st.seq,
                    snd_settle_mode: perf.field(3).as_u32().unwrap_or(2) as u8,
                    rcv_settle_mode: perf.field(4).as_u32().unwrap_or(0) as u8,
                    unsettled: if perf.field(7).is_null() { None } else { Some(perf.field(7).clone()) },
                    source_null: perf.field(5).is_null(),
                    target_null: perf.field(6).is_null(),
                    ..Default::default()
                };
                self.ends[d].sess_mut(f.channel).unwrap().links.push(lv);
            }
            DETACH => {
                let handle = perf.field(0).as_u32().unwrap_or(0);
                let closed = perf.field(1).as_bool().unwrap_or(false);
                let err = error_condition(perf.field(2));
                let s = self.ends[d].sess_mut(f.channel).unwrap();
                match s.link_by_handle_mut(handle) {
                    Some(l) => {
                        l.detached = true;
                        l.detach_closed = closed;
                        l.detach_error = err;
                        l.detach_seq = st.seq;
                    }
                    None => {
                        if m.link {
                            self.viol(d, "detach-without-attach", format!("detach for handle {} which is not attached", handle));
                        }
                    }
                }
                // an unfinished delivery on a detached link is dropped by definition
                self.ends[d].sess_mut(f.channel).unwrap().open_delivery.remove(&handle);
            }
            FLOW => {
                let handle = perf.field(4).as_u32();
                let nii = perf.field(0).as_u32();
                let window = perf.field(1).as_u32().unwrap_or(0);
                let noi = perf.field(2).as_u32().unwrap_or(0);
                let (sent, initial) = {
                    let s = self.ends[d].sess(f.channel).unwrap();
                    (s.transfers_sent, s.initial_outgoing_id)
                };
                if m.window {
                    let expect = initial.wrapping_add(sent as u32);
                    if noi != expect {
                        self.viol(
                            d,
                            "reported-next-outgoing-id",
                            format!(
                                "flow reports next-outgoing-id {} but {} transfer frames were sent from initial {} (expected {})",
                                noi, sent, initial, expect
                            ),
                        );
                    }
                    self.check_reported_nii(d, f.channel, nii, st.seq);
                }
                let s = self.ends[d].sess_mut(f.channel).unwrap();
                s.stmts.push(WindowStmt {
                    seq: st.seq,
                    nii,
                    window,
                    next_outgoing_id: noi,
                    transfers_before: sent,
                });
                if let Some(h) = handle {
                    let stmt = CreditStmt {
                        seq: st.seq,
                        delivery_count: perf.field(5).as_u32(),
                        link_credit: perf.field(6).as_u32().unwrap_or(0),
                        drain: perf.field(8).as_bool().unwrap_or(false),
                        echo: perf.field(9).as_bool().unwrap_or(false),
                    };
                    match s.link_by_handle_mut(h) {
                        Some(l) => l.flows.push(stmt),
                        None => {
                            if m.link {
                                self.viol(d, "flow-for-unattached-handle", format!("flow for handle {} which is not attached", h));
                            }
                        }
                    }
                }
            }
            TRANSFER => self.on_transfer(d, st, f, perf),
            DISPOSITION => {}
            _ => {}
        }
    }

    fn check_reported_nii(&mut self, d: usize, channel: u16, nii: Option<u32>, _seq: u64) {
        // next-incoming-id must be: some statement of the peer's next-outgoing-id plus the
        // number of the peer's transfer frames written since that statement, for some prefix
        let nii = match nii {
            Some(n) => n,
            None => return, // before the peer's begin is known the field may be unset
        };
        let peer = match self.peer_session(d, channel) {
            Some(p) => p,
            None => return,
        };
        let total = peer.transfers_sent;
        let ok = peer.stmts.iter().any(|s| {
            let k = nii.wrapping_sub(s.next_outgoing_id) as u64;
            s.transfers_before.saturating_add(k) <= total
        });
        if !ok {
            let stmts: Vec<_> = peer.stmts.iter().map(|s| (s.next_outgoing_id, s.transfers_before)).collect();
            self.viol(
                d,
                "reported-next-incoming-id",
                format!(
                    "flow reports next-incoming-id {} which matches no (peer next-outgoing-id statement + frames received) with peer statements {:?} and {} peer transfer frames written",
                    nii, stmts, total
                ),
            );
        }
    }

    fn on_transfer(&mut self, d: usize, st: &Stamped, f: &WFrame, perf: &V) {
        let m = self.models[d];
        let handle = perf.field(0).as_u32().unwrap_or(0);
        let delivery_id = perf.field(1).as_u32();
        let tag = perf.field(2).as_bin().map(|b| b.to_vec());
        let message_format = perf.field(3).as_u32();
        let settled = perf.field(4).as_bool();
        let more = perf.field(5).as_bool().unwrap_or(false);
        let aborted = perf.field(9).as_bool().unwrap_or(false);

        // M-window: the implicit transfer-id of this frame
        let (transfer_index, initial) = {
            let s = self.ends[d].sess(f.channel).unwrap();
            (s.transfers_sent, s.initial_outgoing_id)
        };
        let transfer_id = initial.wrapping_add(transfer_index as u32);
        if m.window {
            self.check_window(d, f.channel, transfer_id, st.seq);
        }
        if m.link {
            let s = self.ends[d].sess(f.channel).unwrap();
            match s.link_by_handle(handle) {
                None => self.viol(d, "transfer-for-unattached-handle", format!("transfer for handle {} which is not attached", handle)),
                Some(l) if !l.is_sender => self.viol(d, "transfer-on-receiver-link", format!("transfer on handle {} where this endpoint is the receiver", handle)),
                _ => {}
            }
        }
        let open_idx = self.ends[d].sess(f.channel).unwrap().open_delivery.get(&handle).copied();
        match open_idx {
            None => {
                // first frame of a delivery
                let did = match delivery_id {
                    Some(x) => x,
                    None => {
                        if m.delivery {
                            self.viol(d, "missing-delivery-id", format!("first transfer frame of a delivery on handle {} has no delivery-id", handle));
                        }
                        transfer_id
                    }
                };
                if m.delivery {
                    if tag.is_none() {
                        self.viol(d, "missing-delivery-tag", format!("first transfer frame of delivery {} has no delivery-tag", did));
                    }
                    if let Some(last) = self.ends[d].sess(f.channel).unwrap().last_delivery_id {
                        if !serial_lt(last, did) {
                            self.viol(
                                d,
                                "delivery-id-not-increasing",
                                format!("delivery-id {} follows {} on channel {} (handle {})", did, last, f.channel, handle),
                            );
                        }
                    }
                }
                if m.credit {
                    self.check_credit(d, f.channel, handle, st.seq);
                }
                let del = Delivery {
                    channel: f.channel,
                    handle,
                    delivery_id: did,
                    tag: tag.unwrap_or_default(),
                    settled: settled.unwrap_or(false),
                    payload: f.payload.clone(),
                    frames: 1,
                    aborted,
                    complete: !more || aborted,
                    message_format,
                    first_seq: st.seq,
                    last_seq: st.seq,
                    first_transfer_index: transfer_index,
                };
                let idx = self.ends[d].deliveries.len();
                self.ends[d].deliveries.push(del);
                let s = self.ends[d].sess_mut(f.channel).unwrap();
                s.last_delivery_id = Some(did);
                if let Some(l) = s.link_by_handle_mut(handle) {
                    l.deliveries_started = l.deliveries_started.wrapping_add(1);
                }
                if more && !aborted {
                    s.open_delivery.insert(handle, idx);
                }
            }
            Some(idx) => {
                let (did, dtag) = {
                    let del = &self.ends[d].deliveries[idx];
                    (del.delivery_id, del.tag.clone())
                };
                if m.delivery {
                    if let Some(x) = delivery_id {
                        if x != did {
                            self.viol(
                                d,
                                "continuation-delivery-id",
                                format!("continuation frame carries delivery-id {} but the delivery in progress on handle {} is {}", x, handle, did),
                            );
                        }
                    }
                    if let Some(t) = &tag {
                        if *t != dtag {
                            self.viol(d, "continuation-delivery-tag", format!("continuation frame of delivery {} carries a different delivery-tag", did));
                        }
                    }
                }
                let del = &mut self.ends[d].deliveries[idx];
                del.payload.extend_from_slice(&f.payload);
                del.frames += 1;
                del.last_seq = st.seq;
                if let Some(true) = settled {
                    del.settled = true;
                }
                if aborted {
                    del.aborted = true;
                }
                if !more || aborted {
                    del.complete = true;
                    self.ends[d].sess_mut(f.channel).unwrap().open_delivery.remove(&handle);
                }
            }
        }
        self.ends[d].sess_mut(f.channel).unwrap().transfers_sent += 1;
    }

    fn check_window(&mut self, d: usize, channel: u16, transfer_id: u32, seq: u64) {
        let floor = self.window_floor[1 - d];
        let mine_initial = self.ends[d].sess(channel).unwrap().initial_outgoing_id;
        let peer = match self.peer_session(d, channel) {
            Some(p) => p,
            None => {
                self.viol(d, "transfer-before-peer-begin", format!("transfer on channel {} before the peer's begin", channel));
                return;
            }
        };
        // usable statements: written before this frame; of those older than the floor only the newest
        let mut usable: Vec<&WindowStmt> = peer.stmts.iter().filter(|s| s.seq < seq).collect();
        if floor > 0 {
            let newest_below = usable.iter().filter(|s| s.seq < floor).map(|s| s.seq).max();
            usable.retain(|s| s.seq >= floor || Some(s.seq) == newest_below);
        }
        let ok = usable.iter().any(|s| {
            let base = s.nii.unwrap_or(mine_initial);
            transfer_id.wrapping_sub(base) < s.window
        });
        if !ok {
            let stmts: Vec<_> = usable.iter().map(|s| (s.nii, s.window)).collect();
            self.viol(
                d,
                "window-overrun",
                format!(
                    "transfer-id {} on channel {} lies outside every window the peer advertised (next-incoming-id, incoming-window) = {:?} (initial-outgoing-id {})",
                    transfer_id, channel, stmts, mine_initial
                ),
            );
        }
    }

    /// The peer's view of the link that endpoint `d` calls (channel, handle)
    pub fn peer_link(&self, d: usize, channel: u16, handle: u32) -> Option<&LinkView> {
        let mine = self.ends[d].sess(channel)?.link_by_handle(handle)?;
        let peer = self.peer_session(d, channel)?;
        peer.links.iter().rev().find(|l| l.name == mine.name && l.is_sender != mine.is_sender)
    }

    fn check_credit(&mut self, d: usize, channel: u16, handle: u32, seq: u64) {
        let floor = self.credit_floor[1 - d];
        let (sent_before, initial) = match self.ends[d].sess(channel).and_then(|s| s.link_by_handle(handle)) {
            Some(l) => (l.deliveries_started, l.initial_delivery_count.unwrap_or(0)),
            None => return,
        };
        let dc_snd = initial.wrapping_add(sent_before);
        let peer_link = match self.peer_link(d, channel, handle) {
            Some(l) => l,
            None => {
                self.viol(d, "transfer-before-peer-attach", format!("delivery on handle {} before the peer attached the link", handle));
                return;
            }
        };
        let mut usable: Vec<&CreditStmt> = peer_link.flows.iter().filter(|s| s.seq < seq).collect();
        if floor > 0 {
            let newest_below = usable.iter().filter(|s| s.seq < floor).map(|s| s.seq).max();
            usable.retain(|s| s.seq >= floor || Some(s.seq) == newest_below);
        }
        let ok = usable.iter().any(|s| {
            let dc_rcv = s.delivery_count.unwrap_or(initial);
            // deliveries started since the receiver's count (serial distance, so < 2^31) must be
            // fewer than the credit, which is a plain uint and may be as large as 2^32-1 ("unlimited")
            // (negative when the receiver's count is ahead, as after a drain)
            let used = dc_snd.wrapping_sub(dc_rcv) as i32 as i64;
            (s.link_credit as i64) - used >= 1
        });
        if !ok {
            let stmts: Vec<_> = usable.iter().map(|s| (s.delivery_count, s.link_credit)).collect();
            self.viol(
                d,
                "credit-overrun",
                format!(
                    "delivery number {} on handle {} (delivery-count {} before it) exceeds every grant (delivery-count, link-credit) = {:?}",
                    sent_before + 1,
                    handle,
                    dc_snd,
                    stmts
                ),
            );
        }
    }

    /// Completed deliveries written by endpoint `d` on the link named `name`
    pub fn deliveries_on(&self, d: usize, name: &str) -> Vec<&Delivery> {
        let mut out = Vec::new();
        for s in &self.ends[d].sessions {
            for l in s.links.iter().filter(|l| l.name == name && l.is_sender) {
                for del in &self.ends[d].deliveries {
                    if del.channel == s.channel && del.handle == l.handle && del.first_seq > l.attach_seq && (!l.detached || del.first_seq < l.detach_seq) && del.first_seq > s.begin_seq && (!s.ended || del.first_seq < s.end_seq) {
                        out.push(del);
                    }
                }
            }
        }
        out
    }

    pub fn dump_tail(&self, n: usize) -> Vec<String> {
        self.log
            .iter()
            .rev()
            .take(n)
            .rev()
            .map(|st| match &st.item {
                Item::Header(h) => format!("{} -> header {:?}", self.names[st.dir], h),
                Item::Frame(f) => format!("{} -> {}", self.names[st.dir], describe_frame(f)),
            })
            .collect()
    }
}

pub type MonitorRef = std::rc::Rc<std::cell::RefCell<Monitor>>;

/// Create a monitor and have it follow the wire after every scheduler step
pub fn install(net: &NetHandle, names: [&'static str; 2], models: [Models; 2]) -> MonitorRef {
    let m = std::rc::Rc::new(std::cell::RefCell::new(Monitor::new(net, names, models)));
    let m2 = m.clone();
    sim::set_step_hook(Box::new(move || {
        if let Ok(mut g) = m2.try_borrow_mut() {
            g.sync();
        }
    }));
    m
}
