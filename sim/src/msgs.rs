//! Seeded message generator. Every message carries a unique id in its properties
//! and in its body so that each received message is attributable to one send.

use fe2o3_amqp_types::messaging::message::__private::Serializable;
use fe2o3_amqp_types::messaging::{
    AmqpSequence, AmqpValue, ApplicationProperties, Batch, Body, Data, DeliveryAnnotations, Footer, Header,
    Message, MessageAnnotations, MessageId, Properties,
};
use fe2o3_amqp_types::primitives::{Binary, OrderedMap, SimpleValue, Symbol, Timestamp, Uuid, Value};

use crate::chooser::{choice, pick};

pub type Msg = Message<Body<Value>>;

fn small_value(uid: u64, depth: u32) -> Value {
    match choice(if depth > 2 { 8 } else { 11 }) {
        0 => Value::String(format!("s{}", uid)),
        1 => Value::Uint((uid as u32).wrapping_mul(2654435761)),
        2 => Value::Long(-(uid as i64) * 1_000_003),
        3 => Value::Symbol(Symbol::from(format!("sym-{}", uid % 17))),
        4 => Value::Binary(Binary::from(vec![(uid & 0xff) as u8; (uid % 7) as usize])),
        5 => Value::Timestamp(Timestamp::from_milliseconds(1_600_000_000_000 + uid as i64)),
        6 => Value::Uuid(Uuid::from([(uid & 0xff) as u8; 16])),
        7 => Value::Bool(uid % 2 == 0),
        8 => Value::List((0..choice(4)).map(|i| small_value(uid + i as u64, depth + 1)).collect()),
        9 => {
            let mut m = OrderedMap::new();
            for i in 0..choice(3) {
                m.insert(
                    Value::String(format!("k{}", i)),
                    small_value(uid + 31 * i as u64, depth + 1),
                );
            }
            Value::Map(m)
        }
        _ => Value::Ulong(uid),
    }
}

fn annotations(uid: u64) -> fe2o3_amqp_types::messaging::Annotations {
    let mut a = fe2o3_amqp_types::messaging::Annotations::new();
    let n = 1 + choice(3);
    for i in 0..n {
        if choice(4) == 1 {
            a.insert((1000 + i as u64).into(), small_value(uid + i as u64, 1));
        } else {
            a.insert(
                Symbol::from(format!("x-opt-{}", i)).into(),
                small_value(uid + i as u64, 1),
            );
        }
    }
    a
}

/// The unique id is stored as properties.message-id (ulong) when properties are
/// present and always as the first bytes / first element / value of the body.
pub fn uid_of(msg: &Msg) -> Option<u64> {
    fn from_value(v: &Value) -> Option<u64> {
        match v {
            Value::Ulong(u) => Some(*u),
            Value::List(l) => l.first().and_then(from_value),
            Value::Binary(b) if b.len() >= 8 => Some(u64::from_be_bytes(b[..8].try_into().unwrap())),
            _ => None,
        }
    }
    let from_props = || match msg.properties.as_ref()?.message_id.as_ref()? {
        MessageId::Ulong(u) => Some(*u),
        _ => None,
    };
    match &msg.body {
        // an absent body is put on the wire as amqp-value(null) by design
        Body::Value(AmqpValue(Value::Null)) => from_props(),
        Body::Value(AmqpValue(v)) => from_value(v),
        Body::Data(batch) => {
            let first: &Data = batch.iter().next()?;
            if first.0.len() >= 8 {
                Some(u64::from_be_bytes(first.0[..8].try_into().unwrap()))
            } else {
                None
            }
        }
        Body::Sequence(batch) => {
            let first: &AmqpSequence<Value> = batch.iter().next()?;
            first.0.first().and_then(from_value)
        }
        Body::Empty => from_props(),
    }
}

fn filler(uid: u64, len: usize) -> Vec<u8> {
    let mut v = Vec::with_capacity(len.max(8));
    v.extend_from_slice(&uid.to_be_bytes());
    let mut x = uid.wrapping_mul(0x9E37_79B9_7F4A_7C15) | 1;
    while v.len() < len.max(8) {
        x ^= x << 13;
        x ^= x >> 7;
        x ^= x << 17;
        v.push((x >> 24) as u8);
    }
    v
}

/// Body sizes are chosen around multiples of `frame_body` (the negotiated
/// max-frame-size minus frame overhead) so that payloads land on both sides of
/// every frame boundary.
pub fn body_len(frame_body: usize, max_frames: u32) -> usize {
    match choice(6) {
        0 => 8,
        1 => 8 + choice(64) as usize,
        2 => choice(frame_body as u32) as usize,
        _ => {
            let k = 1 + choice(max_frames) as usize;
            let delta = choice(41) as isize - 20;
            ((k * frame_body) as isize + delta).max(0) as usize
        }
    }
}

pub fn gen_message(uid: u64, frame_body: usize, max_frames: u32) -> Msg {
    let sections = choice(64);
    let len = body_len(frame_body, max_frames);
    let body: Body<Value> = match choice(6) {
        0 => Body::Value(AmqpValue(Value::Ulong(uid))),
        1 => Body::Value(AmqpValue(Value::Binary(Binary::from(filler(uid, len))))),
        2 => {
            let n = 1 + choice(3) as usize;
            let mut parts: Vec<Data> = Vec::new();
            let f = filler(uid, len);
            let first = 8.max(f.len() / n);
            parts.push(Data(Binary::from(f[..first.min(f.len())].to_vec())));
            let rest = &f[first.min(f.len())..];
            if n > 1 && !rest.is_empty() {
                for c in rest.chunks((rest.len() / (n - 1)).max(1)) {
                    parts.push(Data(Binary::from(c.to_vec())));
                }
            }
            Body::Data(Batch::new(parts))
        }
        3 => {
            let n = 1 + choice(2) as usize;
            let mut seqs = Vec::new();
            for i in 0..n {
                let mut elems = vec![Value::Ulong(uid)];
                if i == 0 {
                    elems.push(Value::Binary(Binary::from(filler(uid, len))));
                }
                for j in 0..choice(3) {
                    elems.push(small_value(uid + j as u64, 1));
                }
                seqs.push(AmqpSequence(elems));
            }
            Body::Sequence(Batch::new(seqs))
        }
        4 => Body::Value(AmqpValue(Value::List(vec![
            Value::Ulong(uid),
            Value::String("x".repeat(len.min(70_000))),
            small_value(uid, 0),
        ]))),
        _ => {
            if sections & 8 != 0 {
                Body::Empty
            } else {
                Body::Value(AmqpValue(Value::Ulong(uid)))
            }
        }
    };
    let header = if sections & 1 != 0 {
        Some(Header {
            durable: choice(2) == 1,
            priority: (choice(10) as u8).into(),
            ttl: if choice(2) == 1 { Some(choice(100_000)) } else { None },
            first_acquirer: choice(2) == 1,
            delivery_count: choice(5),
        })
    } else {
        None
    };
    let delivery_annotations = if sections & 2 != 0 {
        Some(DeliveryAnnotations(annotations(uid)))
    } else {
        None
    };
    let message_annotations = if sections & 4 != 0 {
        Some(MessageAnnotations(annotations(uid + 1)))
    } else {
        None
    };
    let properties = if sections & 8 != 0 {
        let mut p = Properties::new();
        p.message_id = Some(MessageId::Ulong(uid));
        if choice(2) == 1 {
            p.subject = Some(format!("subject-{}", uid));
        }
        if choice(3) == 1 {
            p.to = Some(format!("q{}", uid % 5));
        }
        if choice(3) == 1 {
            p.user_id = Some(Binary::from(vec![1u8, 2, 3]));
        }
        if choice(3) == 1 {
            p.content_type = Some(Symbol::from("application/octet-stream"));
        }
        if choice(3) == 1 {
            p.creation_time = Some(Timestamp::from_milliseconds(1_700_000_000_000 + uid as i64));
        }
        if choice(3) == 1 {
            p.group_id = Some("g".to_string());
            p.group_sequence = Some(uid as u32);
        }
        if choice(4) == 1 {
            p.correlation_id = Some(MessageId::String(format!("corr-{}", uid)));
        }
        Some(p)
    } else {
        None
    };
    let application_properties = if sections & 16 != 0 {
        let mut m: OrderedMap<String, SimpleValue> = OrderedMap::new();
        m.insert("uid".to_string(), SimpleValue::Ulong(uid));
        for i in 0..choice(3) {
            m.insert(
                format!("p{}", i),
                pick(&[0u32, 1, 2]).pipe(|k| match k {
                    0 => SimpleValue::String(format!("v{}", uid)),
                    1 => SimpleValue::Int(-(uid as i32)),
                    _ => SimpleValue::Bool(true),
                }),
            );
        }
        Some(ApplicationProperties(m))
    } else {
        None
    };
    let footer = if sections & 32 != 0 {
        Some(Footer(annotations(uid + 2)))
    } else {
        None
    };
    Message {
        header,
        delivery_annotations,
        message_annotations,
        properties,
        application_properties,
        body,
        footer,
    }
}

trait Pipe: Sized {
    fn pipe<R>(self, f: impl FnOnce(Self) -> R) -> R {
        f(self)
    }
}
impl<T> Pipe for T {}

pub fn encode(msg: &Msg) -> Vec<u8> {
    serde_amqp::to_vec(&Serializable(msg)).expect("message serialises")
}

pub fn describe(msg: &Msg) -> String {
    let kind = match &msg.body {
        Body::Value(_) => "value",
        Body::Data(_) => "data",
        Body::Sequence(_) => "seq",
        Body::Empty => "empty",
    };
    format!(
        "msg(uid={:?} {} h{} da{} ma{} p{} ap{} f{} {}B)",
        uid_of(msg),
        kind,
        msg.header.is_some() as u8,
        msg.delivery_annotations.is_some() as u8,
        msg.message_annotations.is_some() as u8,
        msg.properties.is_some() as u8,
        msg.application_properties.is_some() as u8,
        msg.footer.is_some() as u8,
        encode(msg).len()
    )
}

/// Structural equality up to the one normalisation the codec applies by design:
/// an absent body section is encoded as amqp-value(null).
pub fn same_message(a: &Msg, b: &Msg) -> bool {
    fn norm(m: &Msg) -> Msg {
        let mut m = m.clone();
        if let Body::Empty = m.body {
            m.body = Body::Value(AmqpValue(Value::Null));
        }
        m
    }
    norm(a) == norm(b)
}
